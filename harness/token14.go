package main

// C14 — tokens survive serialisation exactly; decoding arbitrary text never crashes.
//
// c14-decode:    arbitrary strings through the real cashu.DecodeToken (under recover) and
//                through every accessor of the token it returns; the guard / prefix / base64
//                layers are recomputed here with Go's real encoding/base64 and compared bit
//                for bit with the Coq model's own base64 (class), the final outcome of the
//                real DecodeToken is compared with the model's decode run on the real
//                unmarshaler's verdict (oracle u, n).  Also direct comparisons of the model's
//                utf8 / hex / base64 functions with the Go standard library.
// c14-roundtrip: proof lists through the real NewTokenV3/V4 -> Serialize -> DecodeToken ->
//                Mint/Amount/Proofs, compared with what the model says the round trip returns.

import (
	"encoding/base64"
	"encoding/hex"
	"encoding/json"
	"fmt"
	"math"
	"math/rand"
	"reflect"
	"sort"
	"strings"
	"time"
	"unicode/utf8"

	"github.com/elnosh/gonuts/cashu"
	"github.com/fxamacker/cbor/v2"
)

const tokFamily = 2

func tokCase(items ...S) S { return L(A(tokFamily), L(items...)) }

func tokStrS(s string) S { return bytesS([]byte(s)) }

func tokDleqS(d *cashu.DLEQProof) S {
	if d == nil {
		return L()
	}
	return L(tokStrS(d.E), tokStrS(d.S), tokStrS(d.R))
}

func tokProofS(p cashu.Proof) S {
	return L(AU(p.Amount), tokStrS(p.Id), tokStrS(p.Secret), tokStrS(p.C), tokStrS(p.Witness), tokDleqS(p.DLEQ))
}

func tokProofsS(ps cashu.Proofs) S {
	items := make([]S, len(ps))
	for i, p := range ps {
		items[i] = tokProofS(p)
	}
	return LL(items)
}

func tokCopyProofs(ps cashu.Proofs) cashu.Proofs {
	out := make(cashu.Proofs, len(ps))
	for i, p := range ps {
		out[i] = p
		if p.DLEQ != nil {
			d := *p.DLEQ
			out[i].DLEQ = &d
		}
	}
	return out
}

// ---------- running the real code without letting it crash the harness ----------

func tokSafeDecode(s string) (tok cashu.Token, err error, pan any) {
	defer func() {
		if r := recover(); r != nil {
			pan = r
		}
	}()
	tok, err = cashu.DecodeToken(s)
	return
}

type tokAccRes struct {
	mint     string
	proofs   cashu.Proofs
	amount   uint64
	ser      string
	serErr   error
	panicked string // name of the first accessor that panicked, "" if none
	panicVal any
}

func tokSafeAccessors(tok cashu.Token) (r tokAccRes) {
	call := func(name string, f func()) {
		defer func() {
			if p := recover(); p != nil && r.panicked == "" {
				r.panicked, r.panicVal = name, p
			}
		}()
		f()
	}
	call("Mint", func() { r.mint = tok.Mint() })
	call("Proofs", func() { r.proofs = tok.Proofs() })
	call("Amount", func() { r.amount = tok.Amount() })
	call("Serialize", func() { r.ser, r.serErr = tok.Serialize() })
	return
}

func tokVersion(tok cashu.Token) int64 {
	switch tok.(type) {
	case *cashu.TokenV3, cashu.TokenV3:
		return 3
	case *cashu.TokenV4, cashu.TokenV4:
		return 4
	}
	return 0
}

func tokWrapSum(ps cashu.Proofs) uint64 {
	var t uint64
	for _, p := range ps {
		t += p.Amount
	}
	return t
}

// ---------- one decode case ----------

func tokDecodeCase(sink *Sink, s string, kind string) {
	sink.Stat("kind=" + kind)
	// layers recomputed with Go's real base64
	class := L(A(0))
	ver := int64(0)
	var payload []byte
	if len(s) >= 6 && (s[:6] == "cashuA" || s[:6] == "cashuB") {
		b, err := base64.URLEncoding.DecodeString(s[6:])
		if err != nil {
			b, err = base64.RawURLEncoding.DecodeString(s[6:])
		}
		if err == nil {
			ver = 3
			if s[5] == 'B' {
				ver = 4
			}
			payload = b
			class = L(A(1), A(ver), bytesS(b))
		}
	}
	// the real unmarshalers' verdict on the bytes that reach them (oracle for the model)
	u, n := false, 0
	func() {
		defer func() {
			if r := recover(); r != nil {
				sink.Violate("unmarshal-panic", fmt.Sprintf("v%d unmarshaler panicked: %v", ver, r), fmt.Sprintf("%q", s), nil)
			}
		}()
		switch ver {
		case 3:
			var t cashu.TokenV3
			if json.Unmarshal(payload, &t) == nil {
				u, n = true, len(t.Token)
			}
		case 4:
			var t cashu.TokenV4
			if cbor.Unmarshal(payload, &t) == nil {
				u = true
			}
		}
	}()
	// the real DecodeToken and the accessors
	tok, err, pan := tokSafeDecode(s)
	var outcome S
	cs := tokCase(A(1), tokStrS(s), AB(u), A(int64(n)))
	switch {
	case pan != nil:
		outcome = L(A(9))
		sink.Stat("outcome=panic")
		sink.Violate("decode-panic", fmt.Sprintf("DecodeToken(%q) panicked: %v", s, pan), cs.String(), map[string]any{"input": s})
	case err != nil:
		outcome = L(A(0))
		sink.Stat("outcome=error")
	default:
		acc := tokSafeAccessors(tok)
		v := tokVersion(tok)
		outcome = L(A(1), A(v), AB(acc.panicked == ""))
		sink.Stat(fmt.Sprintf("outcome=ok-v%d", v))
		if acc.panicked != "" {
			sink.Violate("accessor-panic", fmt.Sprintf("%s() panicked on the token decoded from %q: %v", acc.panicked, s, acc.panicVal),
				cs.String(), map[string]any{"input": s})
		} else {
			if acc.amount != tokWrapSum(acc.proofs) {
				sink.Violate("amount-not-sum", fmt.Sprintf("Amount()=%d, proofs sum to %d", acc.amount, tokWrapSum(acc.proofs)), cs.String(), map[string]any{"input": s})
			}
			// a decoded token serialises to something that decodes to the same content
			if acc.serErr == nil {
				tok2, err2, pan2 := tokSafeDecode(acc.ser)
				if pan2 != nil || err2 != nil {
					sink.Violate("reserialize-undecodable", fmt.Sprintf("Serialize() of the token decoded from %q does not decode: %v %v", s, err2, pan2),
						cs.String(), map[string]any{"input": s})
				} else {
					acc2 := tokSafeAccessors(tok2)
					if acc2.panicked != "" || acc2.mint != acc.mint || acc2.amount != acc.amount || !reflect.DeepEqual(acc2.proofs, acc.proofs) {
						sink.Violate("reserialize-mismatch", fmt.Sprintf("decode(Serialize(decode(%q))) differs from decode", s), cs.String(), map[string]any{"input": s})
					}
				}
			} else {
				sink.Stat("serialize-error-on-decoded")
			}
		}
	}
	nontrivial := len(s) < 6 || ver != 0 || strings.HasPrefix(s, "cashu")
	sink.Add(cs, L(class, outcome), nontrivial)
}

// ---------- generators ----------

var tokAlphabet = []byte{'c', 'a', 's', 'h', 'u', 'A', 'B', '=', '-', '_', 'e', 'y'}

func tokAllStrings(alpha []byte, n int, f func(string)) {
	buf := make([]byte, n)
	var rec func(i int)
	rec = func(i int) {
		if i == n {
			f(string(buf))
			return
		}
		for _, c := range alpha {
			buf[i] = c
			rec(i + 1)
		}
	}
	rec(0)
}

func tokRandFrom(rng *rand.Rand, alpha []byte, n int) string {
	b := make([]byte, n)
	for i := range b {
		b[i] = alpha[rng.Intn(len(alpha))]
	}
	return string(b)
}

func tokRandHex(rng *rand.Rand, nbytes int) string {
	b := make([]byte, nbytes)
	rng.Read(b)
	return hex.EncodeToString(b)
}

var tokSecretsSpecial = []string{
	"",
	"plain secret with spaces",
	`["P2PK",{"nonce":"da62796403af76c80cd6ce9153ed3746","data":"033281c37677ea273eb7183b783067f5244933ef78d8c3f15b1a77cb246099c26e","tags":[["sigflag","SIG_ALL"],["n_sigs","2"],["locktime","1689418329"]]}]`,
	`["HTLC",{"nonce":"\"quoted\" \\ back\\slash","data":"ключ ✓ 🔑","tags":[["pubkeys","02ab","03cd"]]}]`,
	"unicode: Ünïcödé 日本語     \U0001F600 <script>&amp;</script>",
	"control \x00 \x01 \t \n \r \x7f chars",
	"{\"not\":\"nut10\"}",
	"\"",
	"\\",
	"� replacement char itself",
}

var tokWitnesses = []string{
	"", "", "",
	`{"signatures":["60f3c9b766770b46caac1d27e1ae6b77c8866ebaeba0b9489fe6a15a837eaa6fcd6eaa825499c72ac342983983fd3ba3a8a41f56677cc99ffd73da68b59e1383"]}`,
	`{"preimage":"0000000000000000000000000000000000000000000000000000000000000001","signatures":[]}`,
	"witness \"é\" ✓",
}

var tokMints = []string{"http://localhost:3338", "https://mint.example.com/Bitcoin", "", "https://münt.example/ü?x=\"1\"&y=<2>"}

func tokMixCase(rng *rand.Rand, s string, mode int) string {
	switch mode {
	case 1:
		return strings.ToUpper(s)
	case 2:
		b := []byte(s)
		for i := range b {
			if rng.Intn(2) == 0 {
				b[i] = strings.ToUpper(string(b[i]))[0]
			}
		}
		return string(b)
	}
	return s
}

type tokGenOpts struct {
	allowBad bool // non-hex fields, partial DLEQ
}

// tokGenProofs: 0..40 proofs over 1..4 keyset ids (the ids of one token stay distinct after
// lower-casing, so that sorting groups by id is a canonical order).
func tokGenProofs(rng *rand.Rand, sink *Sink, o tokGenOpts) cashu.Proofs {
	n := 0
	switch rng.Intn(6) {
	case 0:
		n = 0
	case 1:
		n = 1
	case 2:
		n = 40
	default:
		n = rng.Intn(41)
	}
	nids := 1 + rng.Intn(4)
	ids := make([]string, nids)
	for i := range ids {
		id := fmt.Sprintf("0%d", i) + tokRandHex(rng, 7)
		ids[i] = tokMixCase(rng, id, rng.Intn(3))
		if rng.Intn(25) == 0 {
			ids[i] = fmt.Sprintf("%d", i) // one character: odd length hex
		}
	}
	if rng.Intn(30) == 0 {
		ids[0] = "" // empty id: decodes to the empty byte string
	}
	if o.allowBad && rng.Intn(12) == 0 {
		ids[rng.Intn(nids)] = "zz" + tokRandHex(rng, 3)
	}
	dleqMode := rng.Intn(4) // 0 none, 1 all, 2 some, 3 some + partial
	ps := make(cashu.Proofs, n)
	for i := range ps {
		p := cashu.Proof{Id: ids[rng.Intn(nids)]}
		switch rng.Intn(8) {
		case 0:
			p.Amount = uint64(1) << 63
		case 1:
			p.Amount = rng.Uint64()
		case 2:
			p.Amount = 0
		case 3:
			p.Amount = math.MaxUint64
		default:
			p.Amount = uint64(1) << uint(rng.Intn(64))
		}
		switch rng.Intn(3) {
		case 0:
			p.Secret = tokSecretsSpecial[rng.Intn(len(tokSecretsSpecial))]
		default:
			p.Secret = tokRandHex(rng, 32)
		}
		p.C = tokMixCase(rng, "02"+tokRandHex(rng, 32), rng.Intn(3))
		if rng.Intn(40) == 0 {
			p.C = ""
		}
		p.Witness = tokWitnesses[rng.Intn(len(tokWitnesses))]
		if dleqMode == 1 || (dleqMode >= 2 && rng.Intn(2) == 0) {
			d := &cashu.DLEQProof{E: tokRandHex(rng, 32), S: tokMixCase(rng, tokRandHex(rng, 32), rng.Intn(3)), R: tokRandHex(rng, 32)}
			if dleqMode == 3 && o.allowBad && rng.Intn(6) == 0 {
				d.R = "" // partial: as a mint sends it
				sink.Stat("proof:dleq-without-r")
			}
			if o.allowBad && rng.Intn(60) == 0 {
				d.E = "xy" + d.E
				sink.Stat("proof:dleq-nonhex")
			}
			if rng.Intn(50) == 0 {
				d.E, d.S = "", ""
			}
			p.DLEQ = d
		}
		if o.allowBad && rng.Intn(150) == 0 {
			p.C = "02zz" + tokRandHex(rng, 4)
			sink.Stat("proof:C-nonhex")
		}
		if o.allowBad && rng.Intn(200) == 0 {
			p.C = "abc"
			sink.Stat("proof:C-odd")
		}
		ps[i] = p
	}
	return ps
}

func tokIsHex(s string) bool {
	_, err := hex.DecodeString(s)
	return err == nil
}

// expected result of the round trip, computed here without the model (monitor)
func tokExpected(v int, unit cashu.Unit, incl bool, ps cashu.Proofs) (cashu.Proofs, bool) {
	if unit != cashu.Sat {
		return nil, false
	}
	out := tokCopyProofs(ps)
	if v == 3 {
		if !incl {
			for i := range out {
				out[i].DLEQ = nil
			}
		}
		return out, true
	}
	for i := range out {
		p := &out[i]
		if !tokIsHex(p.Id) || !tokIsHex(p.C) {
			return nil, false
		}
		p.Id, p.C = strings.ToLower(p.Id), strings.ToLower(p.C)
		if !incl {
			p.DLEQ = nil
		} else if p.DLEQ != nil {
			if !tokIsHex(p.DLEQ.E) || !tokIsHex(p.DLEQ.S) || !tokIsHex(p.DLEQ.R) || p.DLEQ.R == "" {
				return nil, false
			}
			p.DLEQ.E, p.DLEQ.S, p.DLEQ.R = strings.ToLower(p.DLEQ.E), strings.ToLower(p.DLEQ.S), strings.ToLower(p.DLEQ.R)
		}
	}
	sort.SliceStable(out, func(i, j int) bool { return out[i].Id < out[j].Id })
	return out, true
}

type tokRtResult struct {
	ctorErr error
	ser     string
	stage   string // "" ok, else where it went wrong
	detail  string
	mint    string
	amount  uint64
	proofs  cashu.Proofs
}

func tokRealRoundtrip(v int, unit cashu.Unit, incl bool, mint string, ps cashu.Proofs) (r tokRtResult) {
	defer func() {
		if p := recover(); p != nil {
			r.stage, r.detail = "panic", fmt.Sprint(p)
		}
	}()
	var tok cashu.Token
	if v == 3 {
		t, err := cashu.NewTokenV3(ps, mint, unit, incl)
		if err != nil {
			r.ctorErr = err
			return
		}
		tok = t
	} else {
		t, err := cashu.NewTokenV4(ps, mint, unit, incl)
		if err != nil {
			r.ctorErr = err
			return
		}
		tok = t
	}
	ser, err := tok.Serialize()
	if err != nil {
		r.stage, r.detail = "serialize", err.Error()
		return
	}
	r.ser = ser
	dec, err := cashu.DecodeToken(ser)
	if err != nil {
		r.stage, r.detail = "decode", err.Error()
		return
	}
	if tokVersion(dec) != int64(v) {
		r.stage, r.detail = "version", fmt.Sprintf("decoded as V%d", tokVersion(dec))
		return
	}
	r.mint, r.amount, r.proofs = dec.Mint(), dec.Amount(), dec.Proofs()
	// the constructed token answers like the decoded one
	if tok.Mint() != r.mint || tok.Amount() != r.amount {
		r.stage, r.detail = "built-vs-decoded", "Mint()/Amount() differ between the built and the decoded token"
	}
	return
}

func tokRoundtripCase(sink *Sink, v int, unit cashu.Unit, incl bool, mint string, ps cashu.Proofs) {
	orig := tokCopyProofs(ps)
	cs := tokCase(A(2), A(int64(v)), A(int64(unit)), AB(incl), tokStrS(mint), tokProofsS(orig))
	sink.Stat(fmt.Sprintf("v%d incl=%v", v, incl))
	sink.Stat(fmt.Sprintf("nproofs=%s", tokBucket(len(ps))))
	r := tokRealRoundtrip(v, unit, incl, mint, ps)
	replay := map[string]any{"version": v, "unit": int(unit), "include_dleq": incl, "mint": mint, "proofs": orig, "serialized": r.ser}
	exp, expOk := tokExpected(v, unit, incl, orig)
	var obs S
	switch {
	case r.stage == "panic":
		obs = L(A(9))
		sink.Violate("roundtrip-panic", r.detail, cs.String(), replay)
	case r.ctorErr != nil:
		obs = L(A(0))
		sink.Stat("ctor-error")
		if expOk {
			sink.Violate("constructor-error-unexpected", r.ctorErr.Error(), cs.String(), replay)
		}
	case r.stage != "":
		obs = L(A(8))
		sink.Violate("roundtrip-mismatch", "stage "+r.stage+": "+r.detail, cs.String(), replay)
	default:
		got := tokCopyProofs(r.proofs)
		if v == 4 {
			sort.SliceStable(got, func(i, j int) bool { return got[i].Id < got[j].Id })
		}
		obs = L(A(1), tokStrS(r.mint), AU(r.amount), tokProofsS(got))
		sink.Stat("roundtrip-ok")
		if !expOk {
			sink.Violate("constructor-accepts-invalid", "constructor accepted input it must refuse", cs.String(), replay)
		} else {
			if len(exp) == 0 && len(got) == 0 {
				// nil vs empty
			} else if !reflect.DeepEqual(exp, got) {
				sink.Violate("roundtrip-mismatch", "proofs after the round trip differ from the proofs put in", cs.String(), replay)
			}
			if r.mint != mint {
				sink.Violate("roundtrip-mismatch", fmt.Sprintf("mint %q became %q", mint, r.mint), cs.String(), replay)
			}
			if r.amount != tokWrapSum(orig) {
				sink.Violate("roundtrip-mismatch", fmt.Sprintf("Amount()=%d, proofs sum to %d", r.amount, tokWrapSum(orig)), cs.String(), replay)
			}
		}
	}
	if v == 3 && !incl {
		for i := range orig {
			if orig[i].DLEQ != nil && ps[i].DLEQ == nil {
				sink.Stat("NewTokenV3 stripped DLEQ in the caller's slice")
				break
			}
		}
	}
	sink.Add(cs, obs, len(ps) > 0)
}

func tokBucket(n int) string {
	switch {
	case n == 0:
		return "0"
	case n == 1:
		return "1"
	case n < 10:
		return "2-9"
	case n < 40:
		return "10-39"
	}
	return "40"
}

// a valid serialised token of the given version, or "" when the generated proofs are refused
func tokValidToken(rng *rand.Rand, sink *Sink, v int) string {
	for {
		ps := tokGenProofs(rng, sink, tokGenOpts{})
		if len(ps) > 6 {
			ps = ps[:6]
		}
		ok := true
		for _, p := range ps {
			if !tokIsHex(p.Id) {
				ok = false
			}
		}
		if !ok {
			continue
		}
		var tok cashu.Token
		var err error
		if v == 3 {
			tok, err = cashu.NewTokenV3(ps, tokMints[rng.Intn(len(tokMints))], cashu.Sat, true)
		} else {
			tok, err = cashu.NewTokenV4(ps, tokMints[rng.Intn(len(tokMints))], cashu.Sat, true)
		}
		if err != nil {
			continue
		}
		s, err := tok.Serialize()
		if err != nil {
			continue
		}
		return s
	}
}

var tokJSONValues = []string{
	`{"token":[]}`, `{"token":null}`, `{}`, `[]`, `null`, `0`, `1`, `-1`, `1.5`, `1e400`, `"str"`, `true`, ``, ` `, `{`, `{"token"`,
	`{"token":[{}]}`, `{"token":[null]}`, `{"token":[[]]}`, `{"token":{}}`, `{"token":1}`, `{"token":"x"}`,
	`{"token":[{"mint":"m","proofs":null}]}`, `{"token":[{"mint":"m","proofs":[]}]}`, `{"token":[{"mint":1}]}`,
	`{"token":[{"mint":"m","proofs":[{}]}]}`, `{"token":[{"mint":"m","proofs":[null]}]}`,
	`{"token":[{"mint":"m","proofs":[{"amount":-1}]}]}`, `{"token":[{"mint":"m","proofs":[{"amount":18446744073709551615}]}]}`,
	`{"token":[{"mint":"m","proofs":[{"amount":18446744073709551616}]}]}`, `{"token":[{"mint":"m","proofs":[{"amount":1.5}]}]}`,
	`{"token":[{"mint":"m","proofs":[{"amount":"1"}]}]}`,
	`{"token":[{"mint":"m","proofs":[{"amount":9223372036854775808,"id":"00","secret":"s","C":"02"},{"amount":9223372036854775808,"id":"00","secret":"t","C":"03"}]}]}`,
	`{"token":[{"mint":"m","proofs":[{"amount":1,"dleq":null}]}]}`, `{"token":[{"mint":"m","proofs":[{"amount":1,"dleq":{}}]}]}`,
	`{"token":[{"mint":"m","proofs":[{"amount":1,"dleq":[]}]}]}`, `{"token":[{"mint":"m","proofs":[{"amount":1,"witness":5}]}]}`,
	`{"token":[{"mint":"a","proofs":[{"amount":1}]},{"mint":"b","proofs":[{"amount":2}]}],"unit":"usd","memo":"two mints"}`,
	`{"token":[{"mint":"a"}],"token":[]}`, `{"Token":[{"Mint":"case-insensitive"}]}`, `{"token":[{"mint":"a"}]} trailing`,
	`{"token":[{"mint":"\ud800"}]}`, "{\"token\":[{\"mint\":\"\xff\xfe\"}]}", `{"t":[],"m":"x","u":"sat"}`,
	`{"token":[{"mint":"m","proofs":[{"amount":1,"id":"zz","secret":"","C":"not hex"}]}],"unit":"sat"}`,
}

var tokCBORHex = []string{
	"", "a0", "80", "00", "f6", "60", "40", "ff", "a1", "bf6174f6ff", "bf617480ff", "9bffffffffffffffff", "5bffffffffffffffff", "7bffffffffffffffff",
	"bbffffffffffffffff", "a1617482", "d9d9f7a0", "a26174806174f6", "a161749f80ff", "a1617481a2616941006170f6",
	"a1617481a26169410061708000", "a0a0", "a16174a0", "a1617401", "a161746178", "a1617481f6", "a161748101", "a1617481a1616901",
	"a1617481a1616961" + "78", "a1617481a2616941006170" + "81f6", "a1617481a2616941006170" + "8101",
	"a1617481a2616941006170" + "81a1616120", "a1617481a2616941006170" + "81a16161fb3ff8000000000000",
	"a1617481a2616941006170" + "81a161611bffffffffffffffff", "a1617481a2616941006170" + "81a161616131",
	"a1617481a2616941006170" + "81a26161016173" + "01", "a1617481a2616941006170" + "81a26161016163" + "6130",
	"a1617481a2616941006170" + "81a26161016164" + "f6", "a1617481a2616941006170" + "81a26161016164" + "a0",
	"a1617481a2616941006170" + "81a26161016164" + "a1616501", "a1617481a2616941006170" + "81a26161016164" + "80",
	"a1617481a2616941006170" + "81a26161016173" + "62fffe", "a1616d01", "a1616d62c328", "a16175f6", "a1616401",
	"a2616d6161617481a2616941006170" + "82a3616101617361786163" + "4102" + "a3616102617361796163" + "4103",
	"a2616d6161617482a26169410061708" + "0a26169410061708" + "0",
	strings.Repeat("81", 40) + "00", strings.Repeat("81", 4) + "00", "a16174" + strings.Repeat("81", 40) + "00",
	"a1617481a2616941006170" + "81a2616101617340", "c2" + "49010000000000000000", "a1f600", "a10000", "a1806174",
	"a26174f6616df6", "a16174f7", "fb7ff8000000000000", "f97e00", "1bffffffffffffffff", "3bffffffffffffffff",
}

// values marshalled with the real cbor package: well-formed CBOR of the wrong shape
func tokCBORValues() [][]byte {
	vals := []any{
		map[string]any{}, map[string]any{"t": 1}, map[string]any{"t": []any{1}}, map[string]any{"t": nil},
		map[string]any{"t": []any{map[string]any{"i": "str", "p": nil}}},
		map[string]any{"t": []any{map[string]any{"i": []byte{0}, "p": []any{map[string]any{"a": -1}}}}},
		map[string]any{"t": []any{map[string]any{"i": []byte{}, "p": []any{map[string]any{"a": 1, "s": 1}}}}},
		map[string]any{"t": []any{map[string]any{"i": []byte{0, 1}, "p": []any{map[string]any{"a": 1, "s": "x", "c": []byte{2}}}}}, "m": "mint", "u": "sat"},
		map[string]any{"t": []any{map[string]any{"i": []byte{0, 1}, "p": []any{map[string]any{"a": uint64(math.MaxUint64), "s": "x", "c": []byte{2}}, map[string]any{"a": 2, "s": "y", "c": []byte{3}}}}}, "m": "mint", "u": "sat"},
		map[string]any{"t": []any{map[string]any{"i": []byte{0, 1}, "p": []any{map[string]any{"a": 1, "s": "x", "c": []byte{2}, "d": map[string]any{"e": 1}}}}}},
		map[string]any{"t": []any{map[string]any{"i": []byte{0, 1}, "p": []any{map[string]any{"a": 1, "s": "x", "c": []byte{2}, "d": map[string]any{"e": []byte{1}, "s": []byte{2}}}}}}, "m": "mint"},
		map[string]any{"t": []any{map[string]any{"i": []byte{0, 1}, "p": []any{map[string]any{"a": 1, "s": "x", "c": []byte{2}, "d": nil, "w": nil}}}}, "m": "mint"},
		map[string]any{"t": []any{map[string]any{"i": []byte{0, 1}, "p": []any{map[string]any{"a": 1, "s": "x", "c": "text", "w": []byte{1}}}}}},
		map[string]any{"m": 1}, map[string]any{"m": []byte("bytes mint")}, map[string]any{"u": 5, "d": 7},
		map[any]any{1: 2, "t": []any{}}, []any{}, []any{1, 2}, 7, "text", []byte{1, 2}, nil, true, 1.5,
		map[string]any{"T": []any{}, "M": "upper-case keys"},
		map[string]any{"t": []any{}, "m": "empty", "u": "sat", "extra": []any{1, map[string]any{"x": 1}}},
	}
	var out [][]byte
	for _, v := range vals {
		b, err := cbor.Marshal(v)
		if err == nil {
			out = append(out, b)
		}
	}
	return out
}

func tokB64Variants(prefix string, payload []byte, f func(string, string)) {
	f(prefix+base64.URLEncoding.EncodeToString(payload), "b64-padded")
	f(prefix+base64.RawURLEncoding.EncodeToString(payload), "b64-raw")
}

func streamC14Decode(sink *Sink, rng *rand.Rand, tier string, scratch string) {
	start := time.Now()
	scale := 1
	if tier == "thorough" {
		scale = 10
	}
	// 1. every string of length 0..3 over the small alphabet; samples of length 4..8
	exh := 3
	if tier == "thorough" {
		exh = 4
	}
	for n := 0; n <= exh; n++ {
		tokAllStrings(tokAlphabet, n, func(s string) { tokDecodeCase(sink, s, fmt.Sprintf("short-exhaustive len=%d", n)) })
	}
	for n := exh + 1; n <= 8; n++ {
		for i := 0; i < 60*scale; i++ {
			tokDecodeCase(sink, tokRandFrom(rng, tokAlphabet, n), fmt.Sprintf("short-sampled len=%d", n))
		}
	}
	// 2. the two prefixes followed by every string of length 0..2, sampled 3..6
	for _, pre := range []string{"cashuA", "cashuB"} {
		for n := 0; n <= 2; n++ {
			tokAllStrings(tokAlphabet, n, func(s string) { tokDecodeCase(sink, pre+s, "prefix+exhaustive") })
		}
		for i := 0; i < 40*scale; i++ {
			tokDecodeCase(sink, pre+tokRandFrom(rng, tokAlphabet, 3+rng.Intn(4)), "prefix+sampled")
		}
	}
	// 2b. what a user may paste instead of a bare token: URI schemes, surrounding white space, with nothing, a few characters, a
	// bare prefix or a whole prefix + payload behind them (none of these is a token: DecodeToken must answer with an error)
	for _, scheme := range []string{"cashu:", "cashu://", "web+cashu://", "CASHU:", "cashu:cashu:", " ", "\t", "\n", "lightning:", "bitcoin:", "https://"} {
		for _, rest := range []string{"", "a", "ab", "abc", "abcd", "abcde", "abcdef", "cashu", "cashuA", "cashuB", "cashuAe", "cashuAey", "cashuBo2F0", "cashuAeyJ0b2tlbiI6W119"} {
			tokDecodeCase(sink, scheme+rest, "scheme+short")
			tokDecodeCase(sink, rest+scheme, "short+scheme")
		}
	}
	// 3. valid tokens: truncations, single-byte mutations, wrong prefixes, other base64 flavours
	for i := 0; i < 10*scale; i++ {
		for _, v := range []int{3, 4} {
			tok := tokValidToken(rng, sink, v)
			tokDecodeCase(sink, tok, "valid")
			cuts := []int{0, 1, 2, 3, 4, 5, 6, 7, 8, 9, 10, len(tok) - 1, len(tok) - 2, len(tok) - 3, len(tok) - 4}
			for j := 0; j < 6; j++ {
				cuts = append(cuts, rng.Intn(len(tok)))
			}
			for _, c := range cuts {
				if c >= 0 && c < len(tok) {
					tokDecodeCase(sink, tok[:c], "truncation")
				}
			}
			for j := 0; j < 14; j++ {
				b := []byte(tok)
				pos := rng.Intn(len(b))
				if j < 6 {
					pos = j
				}
				switch rng.Intn(5) {
				case 0:
					b[pos] = byte(rng.Intn(256))
				case 1:
					b[pos] = "=\n\r+/ .~"[rng.Intn(8)]
				case 2:
					b[pos] ^= 1 << uint(rng.Intn(8))
				case 3:
					b[pos] = "ABCDEFGHIJKLMNOPQRSTUVWXYZabcdefghijklmnopqrstuvwxyz0123456789-_"[rng.Intn(64)]
				case 4:
					b = append(b[:pos], b[pos+1:]...)
				}
				tokDecodeCase(sink, string(b), "mutation")
			}
			body := tok[6:]
			raw, err := base64.URLEncoding.DecodeString(body)
			if err != nil {
				raw, _ = base64.RawURLEncoding.DecodeString(body)
			}
			for _, pre := range []string{"cashuC", "cashua", "CASHUA", "cashu", "cashuAB", "cashuBA", " cashuA", "cashuA ", "cashuB\n", "cashuA=", "Cashu:", "cashuA" + "cashuA", "cashuB" + "cashuA"} {
				tokDecodeCase(sink, pre+body, "wrong-prefix")
			}
			for _, scheme := range []string{"cashu:", "cashu://", "web+cashu://", " ", "\n"} {
				tokDecodeCase(sink, scheme+tok, "scheme+token")
				tokDecodeCase(sink, tok+scheme, "token+scheme")
			}
			other := "cashuA"
			if v == 3 {
				other = "cashuB"
			}
			tokDecodeCase(sink, other+body, "swapped-prefix")
			tokDecodeCase(sink, tok[:6]+base64.URLEncoding.EncodeToString(raw), "padded")
			tokDecodeCase(sink, tok[:6]+base64.RawURLEncoding.EncodeToString(raw), "raw")
			tokDecodeCase(sink, tok[:6]+base64.StdEncoding.EncodeToString(raw), "std-alphabet")
			tokDecodeCase(sink, tok[:6]+base64.URLEncoding.EncodeToString(raw)+"=", "extra-padding")
			tokDecodeCase(sink, tok[:6]+base64.URLEncoding.EncodeToString(raw)+"\n", "trailing-newline")
			tokDecodeCase(sink, tok[:6]+base64.URLEncoding.EncodeToString(raw)+"AAAA", "trailing-group")
			if len(body) > 10 {
				k := rng.Intn(len(body))
				tokDecodeCase(sink, tok[:6]+body[:k]+"\r\n"+body[k:], "embedded-newline")
				tokDecodeCase(sink, tok[:6]+body[:k]+"="+body[k:], "embedded-pad")
			}
		}
	}
	// 4. base64 (both flavours) of arbitrary JSON and CBOR, under both prefixes
	var payloads [][]byte
	for _, j := range tokJSONValues {
		payloads = append(payloads, []byte(j))
	}
	payloads = append(payloads, []byte(strings.Repeat("[", 10001)+strings.Repeat("]", 10001)))
	payloads = append(payloads, []byte(`{"token":`+strings.Repeat("[", 200)+strings.Repeat("]", 200)+`}`))
	payloads = append(payloads, []byte(`{"token":[{"mint":"m","proofs":`+strings.Repeat(`[`, 50)+strings.Repeat(`]`, 50)+`}]}`))
	for _, h := range tokCBORHex {
		b, err := hex.DecodeString(h)
		if err == nil {
			payloads = append(payloads, b)
		}
	}
	payloads = append(payloads, tokCBORValues()...)
	for _, p := range payloads {
		for _, pre := range []string{"cashuA", "cashuB"} {
			tokB64Variants(pre, p, func(s, k string) { tokDecodeCase(sink, s, "payload-"+k) })
		}
	}
	for i := 0; i < 60*scale; i++ {
		p := make([]byte, rng.Intn(40))
		rng.Read(p)
		if rng.Intn(2) == 0 && len(p) > 0 {
			p[0] = []byte{0xa1, 0xa2, 0xa4, 0xbf, 0x81, '{', '['}[rng.Intn(7)]
		}
		pre := []string{"cashuA", "cashuB"}[rng.Intn(2)]
		tokB64Variants(pre, p, func(s, k string) { tokDecodeCase(sink, s, "random-payload-"+k) })
	}
	// mutated JSON / CBOR of valid tokens (reaches deep into the unmarshalers)
	for i := 0; i < 30*scale; i++ {
		v := 3 + rng.Intn(2)
		tok := tokValidToken(rng, sink, v)
		raw, err := base64.URLEncoding.DecodeString(tok[6:])
		if err != nil {
			raw, _ = base64.RawURLEncoding.DecodeString(tok[6:])
		}
		if len(raw) == 0 {
			continue
		}
		for j := 0; j < 4; j++ {
			b := append([]byte{}, raw...)
			pos := rng.Intn(len(b))
			switch rng.Intn(3) {
			case 0:
				b[pos] = byte(rng.Intn(256))
			case 1:
				b = b[:pos]
			case 2:
				b[pos] ^= 1 << uint(rng.Intn(8))
			}
			tokB64Variants(tok[:6], b, func(s, k string) { tokDecodeCase(sink, s, "mutated-payload-"+k) })
		}
	}
	// 5. the model's text functions against the Go standard library
	tokLibCases(sink, rng, scale)
	sink.Close("strings shorter than 6 bytes, or starting with \"cashu\" (length guard, prefix test, base64 layer or unmarshaler reached); plus direct utf8/hex/base64 comparisons",
		false, start)
}

var tokUtf8Edge = [][]byte{
	{}, {0x7f}, {0x80}, {0xbf}, {0xc0, 0x80}, {0xc1, 0xbf}, {0xc2}, {0xc2, 0x7f}, {0xc2, 0x80}, {0xdf, 0xbf}, {0xdf, 0xc0},
	{0xe0, 0x80, 0x80}, {0xe0, 0x9f, 0xbf}, {0xe0, 0xa0, 0x80}, {0xe0, 0xa0}, {0xed, 0x9f, 0xbf}, {0xed, 0xa0, 0x80}, {0xed, 0xbf, 0xbf},
	{0xee, 0x80, 0x80}, {0xef, 0xbf, 0xbf}, {0xef, 0xbf}, {0xf0, 0x80, 0x80, 0x80}, {0xf0, 0x8f, 0xbf, 0xbf}, {0xf0, 0x90, 0x80, 0x80},
	{0xf0, 0x90, 0x80}, {0xf4, 0x8f, 0xbf, 0xbf}, {0xf4, 0x90, 0x80, 0x80}, {0xf5, 0x80, 0x80, 0x80}, {0xf8, 0x88, 0x80, 0x80, 0x80},
	{0xff}, {0xfe}, {0x41, 0xe2, 0x9c, 0x93, 0x42}, {0x41, 0xe2, 0x9c}, {0xe2, 0x28, 0xa1}, {0xf1, 0x80, 0x80, 0x80, 0x41},
	{0xf3, 0xbf, 0xbf, 0xbf}, {0xf1, 0x80, 0x80, 0x7f}, {0xe1, 0x80, 0xc0}, {0xec, 0xbf, 0xbf}, {0xe1, 0x7f, 0x80},
}

func tokLibCases(sink *Sink, rng *rand.Rand, scale int) {
	utf8Case := func(b []byte) {
		sink.Stat("lib=utf8")
		sink.Add(tokCase(A(3), bytesS(b)), L(AB(utf8.Valid(b))), true)
	}
	for _, e := range tokUtf8Edge {
		utf8Case(e)
	}
	for _, s := range tokSecretsSpecial {
		utf8Case([]byte(s))
	}
	lead := []byte{0x41, 0x7f, 0x80, 0xbf, 0xc0, 0xc2, 0xdf, 0xe0, 0xe1, 0xec, 0xed, 0xee, 0xef, 0xf0, 0xf1, 0xf3, 0xf4, 0xf5, 0xff, 0x9f, 0xa0, 0x8f, 0x90}
	for i := 0; i < 150*scale; i++ {
		b := []byte(tokRandFrom(rng, lead, rng.Intn(7)))
		utf8Case(b)
	}
	hexAlpha := []byte("0123456789abcdefABCDEFgG@`/:xX ")
	for i := 0; i < 120*scale; i++ {
		var s string
		if rng.Intn(2) == 0 {
			s = tokMixCase(rng, tokRandHex(rng, rng.Intn(6)), rng.Intn(3))
			if rng.Intn(5) == 0 {
				s += "a"
			}
		} else {
			s = tokRandFrom(rng, hexAlpha, rng.Intn(7))
		}
		sink.Stat("lib=hex")
		b, err := hex.DecodeString(s)
		obs := L(A(0))
		if err == nil {
			obs = L(A(1), bytesS(b), tokStrS(hex.EncodeToString(b)))
		}
		sink.Add(tokCase(A(4), tokStrS(s)), obs, true)
	}
	b64Alpha := []byte("ABab09-_-_Zz=\n\r+/ QR")
	encs := []*base64.Encoding{base64.RawURLEncoding, base64.URLEncoding}
	b64Case := func(pad int, s string) {
		sink.Stat("lib=b64-decode")
		b, err := encs[pad].DecodeString(s)
		obs := L(A(0))
		if err == nil {
			obs = L(A(1), bytesS(b))
		}
		sink.Add(tokCase(A(5), A(int64(pad)), tokStrS(s)), obs, true)
	}
	for pad := 0; pad <= 1; pad++ {
		for n := 0; n <= 4; n++ {
			tokAllStrings([]byte("Qa=\n-"), n, func(s string) { b64Case(pad, s) })
		}
		for i := 0; i < 150*scale; i++ {
			b64Case(pad, tokRandFrom(rng, b64Alpha, rng.Intn(14)))
		}
		for i := 0; i < 60*scale; i++ {
			p := make([]byte, rng.Intn(12))
			rng.Read(p)
			s := encs[rng.Intn(2)].EncodeToString(p)
			if rng.Intn(3) == 0 && len(s) > 0 {
				k := rng.Intn(len(s))
				s = s[:k] + []string{"\n", "\r\n", "=", "A"}[rng.Intn(4)] + s[k:]
			}
			b64Case(pad, s)
			sink.Stat("lib=b64-encode")
			sink.Add(tokCase(A(6), A(int64(pad)), bytesS(p)), L(tokStrS(encs[pad].EncodeToString(p))), true)
		}
	}
}

func streamC14Roundtrip(sink *Sink, rng *rand.Rand, tier string, scratch string) {
	start := time.Now()
	n := 300
	if tier == "thorough" {
		n = 4000
	}
	for i := 0; i < n; i++ {
		v := 3 + rng.Intn(2)
		incl := rng.Intn(2) == 0
		unit := cashu.Sat
		if rng.Intn(40) == 0 {
			unit = cashu.Unit(1 + rng.Intn(3))
		}
		ps := tokGenProofs(rng, sink, tokGenOpts{allowBad: true})
		mint := tokMints[rng.Intn(len(tokMints))]
		tokRoundtripCase(sink, v, unit, incl, mint, ps)
	}
	// fixed corner cases
	two63 := uint64(1) << 63
	mk := func(a uint64, id, c string) cashu.Proof { return cashu.Proof{Amount: a, Id: id, Secret: "s", C: c} }
	fixed := []cashu.Proofs{
		nil, {},
		{mk(two63, "00ad268c4d1f5826", "02ab"), mk(two63, "00ad268c4d1f5826", "03cd")},
		{mk(1, "00AD268C4D1F5826", "02AB"), mk(2, "00ad268c4d1f5827", "03cD")},
		{mk(1, "", ""), mk(2, "", "00")},
		{mk(1, "00", "0"), mk(2, "00", "00")},
		{mk(1, "0", "00")},
		{mk(1, "zz", "00")},
		{{Amount: 1, Id: "00", Secret: "s", C: "02", DLEQ: &cashu.DLEQProof{E: "aa", S: "bb"}}},
		{{Amount: 1, Id: "00", Secret: "s", C: "02", DLEQ: &cashu.DLEQProof{E: "", S: "", R: "00"}}},
		{{Amount: 1, Id: "00", Secret: "s", C: "02", DLEQ: &cashu.DLEQProof{E: "AA", S: "Bb", R: "cC"}}},
		{{Amount: 1, Id: "00", Secret: "s", C: "02", DLEQ: &cashu.DLEQProof{E: "aa", S: "bb", R: "c"}}},
	}
	for _, ps := range fixed {
		for _, v := range []int{3, 4} {
			for _, incl := range []bool{false, true} {
				tokRoundtripCase(sink, v, cashu.Sat, incl, "http://localhost:3338", tokCopyProofs(ps))
			}
		}
	}
	sink.Close("token with at least one proof", false, start)
}

func init() {
	register("c14-decode", "C14", streamC14Decode)
	register("c14-roundtrip", "C14", streamC14Roundtrip)
}
