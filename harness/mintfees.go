package main

// c09-fees: input fees at their boundaries (C09, C02).  For keysets with input_fee_ppk from 1 up to the largest value the
// admin RPC accepts, alone and mixed with inputs of an older keyset: a swap that pays exactly the fee is accepted, one that pays
// one sat less is refused.

import (
	"fmt"
	"math/rand"
	"time"

	"github.com/elnosh/gonuts/cashu"
)

func streamFees(sink *Sink, rng *rand.Rand, tier string, scratch string) {
	start := time.Now()
	fees := []string{"1", "100", "250", "999", "1000", "1001", "2500", "4294967296", "9223372036854775807"}
	for _, first := range []uint{0, 100, 250} {
		for _, fee := range fees {
			cfg := cfgT{feePct: 1, fee0: first}
			h := NewHist(sink, rng, scratch, cfg, 1, "C09")
			h.fundAmount(31) // 1 2 4 8 16 on the first keyset
			f := fee
			h.OpAdmin(adminReq{method: "rotate_keyset", fee: &f})
			h.fundAmount(31) // and on the new one
			pick := func(ks int64, n int) []inSpec {
				var l []inSpec
				for _, s := range h.spendable() {
					if s.ks == ks && len(l) < n {
						l = append(l, h.honest(s))
					}
				}
				return l
			}
			try := func(ins []inSpec) {
				if len(ins) == 0 {
					return
				}
				var sum uint64
				for _, i := range ins {
					sum += i.amount
				}
				due := h.feesFor(ins)
				h.nontrivial = true
				// one sat too little is refused (also: no fee at all)
				if due > 0 && sum >= due-1 && sum-(due-1) > 0 {
					h.OpSwap(mode{}, ins, h.freshOutputs(cashu.AmountSplit(sum-(due-1))))
				}
				if due > 0 {
					h.OpSwap(mode{}, ins, h.freshOutputs(cashu.AmountSplit(sum)))
				}
				// the exact fee is accepted
				if _, err := h.OpSwap(mode{}, ins, h.honestSwapOutputs(ins)); err != nil && sum > due && (classify(err) == 30 || classify(err) == 29) {
					h.sink.Violate("exact-fee-swap-refused", fmt.Sprintf("inputs worth %d owing a fee of %d (each its own keyset's input_fee_ppk, rounded up once) were refused for %d of outputs: %v", sum, due, sum-due, err),
						LL(h.items).String(), nil)
				}
			}
			new1 := h.activeHandle()
			// outputs mixing keysets: the first on the active keyset, later ones on the old one - refused as a whole (C09)
			if q := h.OpMintQuote(mode{}, 7, false, false, true); q != nil {
				h.EnvSettle(q)
				outs := []outSpec{{b: h.newB(h.newSecret(), 1, new1), amount: 1, ks: new1, point: true},
					{b: h.newB(h.newSecret(), 2, 0), amount: 2, ks: 0, point: true}, {b: h.newB(h.newSecret(), 4, 0), amount: 4, ks: 0, point: true}}
				h.OpMint(mode{}, q, outs, 0, false)
				h.OpMint(mode{}, q, h.freshOutputs(cashu.AmountSplit(7)), 0, false)
			}
			if ins := pick(0, 2); len(ins) > 0 {
				var sum uint64
				for _, i := range ins {
					sum += i.amount
				}
				if due := h.feesFor(ins); sum > due+1 {
					var outs []outSpec
					for k, a := range cashu.AmountSplit(sum - due) {
						ks := int64(0)
						if k == 0 {
							ks = new1
						}
						outs = append(outs, outSpec{b: h.newB(h.newSecret(), a, ks), amount: a, ks: ks, point: true})
					}
					h.OpSwap(mode{}, ins, outs)
				}
			}
			try(pick(new1, 1))
			try(pick(new1, 2))
			try(append(pick(0, 1), pick(new1, 1)...))
			try(append(pick(new1, 1), pick(0, 2)...))
			try(pick(0, 2))
			sink.Stat(fmt.Sprintf("fee-pair=%d/%s", first, fee))
			h.Finish(true)
		}
	}
	sink.Close("for a first keyset with input_fee_ppk in {0,100,250} and a second one (rotated in through the admin RPC) with input_fee_ppk in {1,100,250,999,1000,1001,2500,2^32,2^63-1}: "+
		"swaps of 1-3 inputs of either or both keysets paying one sat too little, nothing, and exactly the fee; non-trivial = every case", true, start)
}

func init() {
	register("c09-fees", "C09", streamFees)
}
