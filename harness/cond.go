package main

// Spending conditions (C12 P2PK, C13 HTLC): abstract lock/witness configurations are
// generated, concretised with real keys, Schnorr signatures and hashes, and evaluated
// by the real code: nut11.VerifyP2PKLockedProof / nut14.VerifyHTLCProof for single
// proofs, Mint.Swap / Mint.MeltTokens for whole requests, and the library's own
// signing helpers for canonical witnesses.

import (
	"context"
	"crypto/sha256"
	"encoding/hex"
	"encoding/json"
	"fmt"
	"math/rand"
	"strconv"
	"time"

	"github.com/btcsuite/btcd/btcec/v2"
	"github.com/btcsuite/btcd/btcec/v2/schnorr"
	"github.com/elnosh/gonuts/cashu"
	"github.com/elnosh/gonuts/cashu/nuts/nut05"
	"github.com/elnosh/gonuts/cashu/nuts/nut10"
	"github.com/elnosh/gonuts/cashu/nuts/nut11"
	"github.com/elnosh/gonuts/cashu/nuts/nut14"
)

const nCondKeys = 8

type cSig struct {
	ok      bool
	k, m, n int64
	id      int64
}

func (s cSig) S() S {
	if s.ok {
		return L(A(0), A(s.k), A(s.m), A(s.n))
	}
	return L(A(1), A(s.id))
}

type cTag struct {
	typ   int // 0 short,1 sigflag,2 nsigs,3 pubkeys,4 locktime,5 refund,6 other
	v     int64
	has   bool // nsigs/locktime: value is an integer
	extra bool
	keys  []int64
}

func (t cTag) S() S {
	switch t.typ {
	case 0:
		return L(A(0))
	case 1:
		return L(A(1), A(t.v), AB(t.extra))
	case 2, 4:
		if t.has {
			return L(A(int64(t.typ)), A(t.v))
		}
		return L(A(int64(t.typ)))
	case 3, 5:
		items := []S{A(int64(t.typ))}
		for _, k := range t.keys {
			items = append(items, A(k))
		}
		return LL(items)
	default:
		return L(A(6))
	}
}

type cSecret struct {
	plain   bool
	kind    int // 0 P2PK 1 HTLC 2 other
	dataKey int64
	isHash  bool
	hash    int64
	len64   bool
	tags    []cTag
	nonce   string
}

func (s cSecret) S() S {
	if s.plain {
		return L(A(0))
	}
	var d S
	if s.isHash {
		d = L(A(1), A(s.hash), AB(s.len64))
	} else {
		d = L(A(0), A(s.dataKey))
	}
	ts := make([]S, len(s.tags))
	for i, t := range s.tags {
		ts[i] = t.S()
	}
	return L(A(1), A(int64(s.kind)), d, LL(ts))
}

type cWit struct {
	typ  int   // 0 none, 1 p2pk, 2 htlc
	pre  int64 // handle, -1 non-hex
	sigs []cSig
	raw  string // for typ 0: the literal string
}

func (w cWit) S() S {
	ss := make([]S, len(w.sigs))
	for i, s := range w.sigs {
		ss[i] = s.S()
	}
	switch w.typ {
	case 1:
		return L(A(1), LL(ss))
	case 2:
		return L(A(2), A(w.pre), LL(ss))
	}
	return L(A(0))
}

type condWorld struct {
	rng  *rand.Rand
	keys []*btcec.PrivateKey // handle i+1
	now  int64
	msgs map[int64][]byte // message handle -> bytes whose sha256 is signed
	next int64
}

func newCondWorld(rng *rand.Rand) *condWorld {
	w := &condWorld{rng: rng, now: time.Now().Unix(), msgs: map[int64][]byte{}, next: 1}
	for i := 0; i < nCondKeys; i++ {
		b := make([]byte, 32)
		rng.Read(b)
		k, _ := btcec.PrivKeyFromBytes(b)
		w.keys = append(w.keys, k)
	}
	return w
}

func (w *condWorld) pubhex(k int64) string {
	if k < 0 {
		bad := []string{"zz", "02abcd", "", "04" + randHex(w.rng, 31)}
		return bad[w.rng.Intn(len(bad))]
	}
	return hex.EncodeToString(w.keys[k-1].PubKey().SerializeCompressed())
}

func (w *condWorld) preimageBytes(h int64) []byte {
	if h == 0 {
		return []byte{}
	}
	if h == 5 {
		// the preimage whose bytes are the text of the one non-hex witness string: a verifier that fell back to the raw text of
		// a preimage that is not hex would accept that witness for this lock
		return []byte("nothex!")
	}
	x := sha256.Sum256([]byte(fmt.Sprintf("preimage-%d", h)))
	return x[:]
}

func (w *condWorld) hashHex(h int64) string {
	if h < 0 {
		s := ""
		for len(s) < 64 {
			s += "zy"
		}
		return s
	}
	x := sha256.Sum256(w.preimageBytes(h))
	return hex.EncodeToString(x[:])
}

func (w *condWorld) newMsg(bytes []byte) int64 {
	m := w.next
	w.next++
	w.msgs[m] = bytes
	return m
}

func (w *condWorld) msgBytes(m int64) []byte {
	if b, ok := w.msgs[m]; ok {
		return b
	}
	return []byte(fmt.Sprintf("some other message %d", m))
}

func (w *condWorld) sigString(s cSig) string {
	if !s.ok {
		switch s.id % 3 {
		case 0:
			return "nothex-" + strconv.FormatInt(s.id, 10)
		case 1:
			return hex.EncodeToString([]byte(fmt.Sprintf("short-%d", s.id)))
		default:
			// 64 bytes that parse as (r,s) at best but verify for no key
			h1 := sha256.Sum256([]byte(fmt.Sprintf("junk-r-%d", s.id)))
			h2 := sha256.Sum256([]byte(fmt.Sprintf("junk-s-%d", s.id)))
			h2[0] &= 0x7f
			return hex.EncodeToString(append(h1[:], h2[:]...))
		}
	}
	hash := sha256.Sum256(w.msgBytes(s.m))
	aux := sha256.Sum256([]byte(fmt.Sprintf("nonce-%d", s.n)))
	sig, err := schnorr.Sign(w.keys[s.k-1], hash[:], schnorr.CustomNonce(aux))
	must(err)
	return hex.EncodeToString(sig.Serialize())
}

func (w *condWorld) tagStrings(t cTag) []string {
	switch t.typ {
	case 0:
		names := []string{"locktime", "n_sigs", "pubkeys", "foo"}
		return []string{names[w.rng.Intn(len(names))]}
	case 1:
		var v string
		switch t.v {
		case 0:
			v = "SIG_INPUTS"
		case 1:
			v = "SIG_ALL"
		default:
			v = "SIG_SOME"
		}
		if t.extra {
			return []string{"sigflag", v, "x"}
		}
		return []string{"sigflag", v}
	case 2:
		if t.has {
			return []string{"n_sigs", strconv.FormatInt(t.v, 10)}
		}
		return []string{"n_sigs", "two"}
	case 3, 5:
		name := "pubkeys"
		if t.typ == 5 {
			name = "refund"
		}
		out := []string{name}
		for _, k := range t.keys {
			out = append(out, w.pubhex(k))
		}
		return out
	case 4:
		if t.has {
			return []string{"locktime", strconv.FormatInt(t.v, 10)}
		}
		return []string{"locktime", "soon"}
	default:
		return []string{"memo", "hello"}
	}
}

func (w *condWorld) secretString(s *cSecret) string {
	if s.plain {
		return randHex(w.rng, 32)
	}
	if s.nonce == "" {
		s.nonce = randHex(w.rng, 16)
	}
	kind := []string{"P2PK", "HTLC", "SOMETHING"}[s.kind]
	var data string
	if s.isHash {
		data = w.hashHex(s.hash)
		if !s.len64 {
			data = data[:40]
		}
	} else {
		data = w.pubhex(s.dataKey)
	}
	tags := [][]string{}
	for _, t := range s.tags {
		tags = append(tags, w.tagStrings(t))
	}
	js, err := json.Marshal(nut10.SecretData{Nonce: s.nonce, Data: data, Tags: tags})
	must(err)
	return fmt.Sprintf("[\"%s\", %s]", kind, string(js))
}

func (w *condWorld) witnessString(wt cWit) string {
	sigs := []string{}
	for _, s := range wt.sigs {
		sigs = append(sigs, w.sigString(s))
	}
	switch wt.typ {
	case 1:
		b, _ := json.Marshal(nut11.P2PKWitness{Signatures: sigs})
		return string(b)
	case 2:
		pre := "nothex!"
		if wt.pre >= 0 {
			pre = hex.EncodeToString(w.preimageBytes(wt.pre))
		}
		b, _ := json.Marshal(nut14.HTLCWitness{Preimage: pre, Signatures: sigs})
		return string(b)
	}
	return wt.raw
}

// ---- generation ----

func (w *condWorld) pickKeys(n int, badProb float64) []int64 {
	out := make([]int64, n)
	for i := range out {
		if w.rng.Float64() < badProb {
			out[i] = -1
		} else {
			out[i] = int64(1 + w.rng.Intn(nCondKeys))
		}
	}
	return out
}

// genSecret draws a lock configuration of the given kind.
// nearCondition: the same flags and threshold as base with a neighbouring key set (a listed key dropped or added, the
// lock key exchanged with a listed one): everything a "same condition" test may confuse with base
func (w *condWorld) nearCondition(base cSecret) cSecret {
	c := base
	c.nonce = ""
	c.tags = nil
	for _, t := range base.tags {
		t2 := t
		t2.keys = append([]int64(nil), t.keys...)
		c.tags = append(c.tags, t2)
	}
	pk := -1
	for i, t := range c.tags {
		if t.typ == 3 {
			pk = i
		}
	}
	switch w.rng.Intn(4) {
	case 0: // drop the pubkeys tag
		if pk >= 0 {
			c.tags = append(c.tags[:pk], c.tags[pk+1:]...)
		}
	case 1: // drop one listed key (a pubkeys tag without any key would be a malformed tag, which is another matter)
		if pk >= 0 && len(c.tags[pk].keys) > 1 {
			k := w.rng.Intn(len(c.tags[pk].keys))
			c.tags[pk].keys = append(c.tags[pk].keys[:k], c.tags[pk].keys[k+1:]...)
		} else if pk >= 0 {
			c.tags = append(c.tags[:pk], c.tags[pk+1:]...)
		}
	case 2: // the lock key is one of base's listed keys (and the list is gone)
		if pk >= 0 && len(c.tags[pk].keys) > 0 && !c.isHash {
			c.dataKey = c.tags[pk].keys[w.rng.Intn(len(c.tags[pk].keys))]
			c.tags = append(c.tags[:pk], c.tags[pk+1:]...)
		}
	case 3: // one more listed key
		if pk >= 0 {
			c.tags[pk].keys = append(c.tags[pk].keys, int64(1+w.rng.Intn(nCondKeys)))
		} else {
			c.tags = append(c.tags, cTag{typ: 3, keys: []int64{int64(1 + w.rng.Intn(nCondKeys))}})
		}
	}
	return c
}

func (w *condWorld) genSecret(kind int, forceSigAll int) cSecret {
	r := w.rng
	s := cSecret{kind: kind}
	if kind == 1 {
		s.isHash = true
		s.hash = int64(1 + r.Intn(5))
		s.len64 = true
		switch r.Intn(14) {
		case 0:
			s.len64 = false
		case 1:
			s.hash = -5
		case 2:
			s.hash = 0
		}
	} else {
		s.dataKey = int64(1 + r.Intn(nCondKeys))
		if r.Intn(25) == 0 {
			s.dataKey = -1
		}
	}
	var tags []cTag
	// n_sigs
	switch r.Intn(12) {
	case 0, 1, 2, 3:
	case 4:
		tags = append(tags, cTag{typ: 2, has: true, v: 0})
	case 5, 6:
		tags = append(tags, cTag{typ: 2, has: true, v: 1})
	case 7, 8:
		tags = append(tags, cTag{typ: 2, has: true, v: 2})
	case 9:
		tags = append(tags, cTag{typ: 2, has: true, v: int64(3 + r.Intn(2))})
	case 10:
		tags = append(tags, cTag{typ: 2, has: true, v: []int64{-1, 200, -129, 127}[r.Intn(4)]})
	case 11:
		tags = append(tags, cTag{typ: 2})
	}
	// pubkeys
	if n := r.Intn(4); n > 0 && r.Intn(5) != 0 {
		ks := w.pickKeys(n, 0.02)
		if !s.isHash && s.dataKey > 0 && r.Intn(8) == 0 {
			ks[r.Intn(n)] = s.dataKey // the lock key listed again
		}
		if n > 1 && r.Intn(8) == 0 {
			ks[0] = ks[1] // a key listed twice
		}
		tags = append(tags, cTag{typ: 3, keys: ks})
	}
	// locktime
	switch r.Intn(10) {
	case 0, 1, 2:
		tags = append(tags, cTag{typ: 4, has: true, v: w.now - 3600 - int64(r.Intn(1000))})
	case 3, 4:
		tags = append(tags, cTag{typ: 4, has: true, v: w.now + 3600 + int64(r.Intn(1000))})
	case 5:
		if r.Intn(3) == 0 {
			tags = append(tags, cTag{typ: 4})
		} else {
			tags = append(tags, cTag{typ: 4, has: true, v: []int64{0, -5}[r.Intn(2)]})
		}
	case 6:
		// "never": the largest timestamps there are (anything that converts them to another time scale must not wrap)
		tags = append(tags, cTag{typ: 4, has: true, v: []int64{9223372036854775807, 9223372036854775806, 9223371974719179008, 9223371974719179007, 1 << 62, 253402300800}[r.Intn(6)]})
	}
	// refund
	if r.Intn(3) == 0 {
		tags = append(tags, cTag{typ: 5, keys: w.pickKeys(1+r.Intn(2), 0.03)})
	}
	// sigflag
	sf := r.Intn(12)
	if forceSigAll == 1 {
		sf = 2
	} else if forceSigAll == 0 && sf >= 2 && sf <= 5 {
		sf = 0
	}
	switch sf {
	case 1:
		tags = append(tags, cTag{typ: 1, v: 0})
	case 2, 3, 4:
		tags = append(tags, cTag{typ: 1, v: 1})
	case 5:
		tags = append(tags, cTag{typ: 1, v: 1, extra: true})
	case 6:
		if r.Intn(3) == 0 {
			tags = append(tags, cTag{typ: 1, v: 2})
		}
	}
	if r.Intn(20) == 0 {
		tags = append(tags, cTag{typ: 6})
	}
	if r.Intn(40) == 0 {
		tags = append(tags, cTag{typ: 0})
	}
	if r.Intn(40) == 0 {
		for len(tags) < 6 {
			tags = append(tags, cTag{typ: 6})
		}
	}
	r.Shuffle(len(tags), func(i, j int) { tags[i], tags[j] = tags[j], tags[i] })
	s.tags = tags
	return s
}

// authorised returns the keys that may sign under s before / after the locktime (as far as the generator cares).
func authorised(s cSecret) (main []int64, refund []int64) {
	if !s.isHash && s.dataKey > 0 {
		main = append(main, s.dataKey)
	}
	for _, t := range s.tags {
		if t.typ == 3 {
			main = append(main, t.keys...)
		}
		if t.typ == 5 {
			refund = append(refund, t.keys...)
		}
	}
	return
}

func (w *condWorld) genSigs(s cSecret, msg int64) []cSig {
	r := w.rng
	main, refund := authorised(s)
	pool := append(append([]int64{}, main...), refund...)
	n := r.Intn(5)
	if r.Intn(3) == 0 {
		n = len(main)
	}
	var sigs []cSig
	for i := 0; i < n; i++ {
		switch x := r.Intn(20); {
		case x < 11 && len(pool) > 0:
			k := pool[r.Intn(len(pool))]
			if k < 0 {
				k = 1
			}
			sigs = append(sigs, cSig{ok: true, k: k, m: msg, n: int64(r.Intn(3))})
		case x < 13 && len(main) > i && main[i] > 0:
			sigs = append(sigs, cSig{ok: true, k: main[i], m: msg, n: 0})
		case x < 15:
			sigs = append(sigs, cSig{ok: true, k: int64(1 + r.Intn(nCondKeys)), m: msg, n: 0})
		case x < 16 && len(pool) > 0 && pool[0] > 0:
			sigs = append(sigs, cSig{ok: true, k: pool[0], m: msg + 1000000, n: 0})
		case x < 17:
			sigs = append(sigs, cSig{id: int64(r.Intn(6))})
		case x < 19 && len(sigs) > 0:
			sigs = append(sigs, sigs[r.Intn(len(sigs))])
		default:
			if len(main) > 0 && main[0] > 0 {
				sigs = append(sigs, cSig{ok: true, k: main[0], m: msg, n: int64(r.Intn(4))})
			}
		}
	}
	if len(main) > 0 && r.Intn(3) == 0 {
		// every authorised key signs once
		sigs = nil
		for _, k := range main {
			if k > 0 {
				sigs = append(sigs, cSig{ok: true, k: k, m: msg, n: 0})
			}
		}
		r.Shuffle(len(sigs), func(i, j int) { sigs[i], sigs[j] = sigs[j], sigs[i] })
	}
	return sigs
}

func (w *condWorld) genWitness(s cSecret, msg int64) cWit {
	r := w.rng
	if s.plain {
		return cWit{}
	}
	switch r.Intn(16) {
	case 0:
		return cWit{typ: 0, raw: ""}
	case 1:
		return cWit{typ: 0, raw: "garbage"}
	}
	sigs := w.genSigs(s, msg)
	typ := 1
	if s.kind == 1 {
		typ = 2
	}
	if r.Intn(12) == 0 {
		typ = 3 - typ // the other shape
	}
	wt := cWit{typ: typ, sigs: sigs}
	if typ == 2 {
		wt.pre = s.hash
		if !s.isHash {
			wt.pre = 1
		}
		switch r.Intn(8) {
		case 0:
			wt.pre = int64(1 + r.Intn(5))
		case 1:
			wt.pre = -1
		case 2:
			wt.pre = 0
		}
		if wt.pre < -1 {
			wt.pre = 1
		}
	}
	return wt
}

// verifyConditionGo is the dispatch of Mint.verifyProofs on the NUT-10 kind, calling the real verifiers.
func verifyConditionGo(p cashu.Proof) bool {
	sec, err := nut10.DeserializeSecret(p.Secret)
	if err != nil {
		return true
	}
	switch sec.Kind {
	case nut10.P2PK:
		return nut11.VerifyP2PKLockedProof(p, sec) == nil
	case nut10.HTLC:
		return nut14.VerifyHTLCProof(p, sec) == nil
	}
	return true
}

func condNontrivial(s cSecret, wt cWit) bool {
	return !s.plain && wt.typ != 0 && len(wt.sigs) > 0
}

// ---- streams ----

func condEval(kind int) streamFn {
	return func(sink *Sink, rng *rand.Rand, tier string, scratch string) {
		start := time.Now()
		w := newCondWorld(rng)
		n := 6000
		if tier == "thorough" {
			n = 120000
		}
		for i := 0; i < n; i++ {
			k := kind
			if rng.Intn(30) == 0 {
				k = 2
			}
			s := w.genSecret(k, -1)
			if rng.Intn(60) == 0 {
				s = cSecret{plain: true}
			}
			secret := w.secretString(&s)
			msg := w.newMsg([]byte(secret))
			wt := w.genWitness(s, msg)
			p := cashu.Proof{Amount: 1, Id: "00", Secret: secret, C: "02", Witness: w.witnessString(wt)}
			got := verifyConditionGo(p)
			c := L(A(1), L(A(1), A(w.now), L(A(msg), s.S(), wt.S())))
			sink.Add(c, L(AB(got)), condNontrivial(s, wt))
			sink.Stat(fmt.Sprintf("accept=%v", got))
			sink.Stat(fmt.Sprintf("sigs=%d", len(wt.sigs)))
		}
		condHelpers(sink, w, kind, n/20)
		sink.Close("random lock configurations (n_sigs, pubkeys, locktime, refund, sigflag, malformed tags) x witnesses "+
			"(valid/foreign/wrong-message/junk/duplicate signatures, preimages); non-trivial = NUT-10 locked with a parsed witness holding at least one signature; distinct by abstract case", false, start)
	}
}

// condHelpers: the library's signing helpers produce the witness; the abstract case only names the helper.
func condHelpers(sink *Sink, w *condWorld, kind int, n int) {
	rng := w.rng
	for i := 0; i < n; i++ {
		s := w.genSecret(kind, -1)
		secret := w.secretString(&s)
		msg := w.newMsg([]byte(secret))
		main, _ := authorised(s)
		var k int64 = int64(1 + rng.Intn(nCondKeys))
		if len(main) > 0 && main[0] > 0 && rng.Intn(4) != 0 {
			k = main[rng.Intn(len(main))]
			if k < 0 {
				k = 1
			}
		}
		key := w.keys[k-1]
		sec, err := nut10.DeserializeSecret(secret)
		must(err)
		pre := s.hash
		if pre < 0 || !s.isHash {
			pre = 1
		}
		in := cashu.Proofs{{Amount: 1, Id: "00", Secret: secret, C: "02"}}
		var out cashu.Proofs
		if kind == 0 {
			out, err = nut11.AddSignatureToInputs(in, key)
		} else {
			out, err = nut14.AddWitnessHTLC(in, sec, hex.EncodeToString(w.preimageBytes(pre)), key)
		}
		c := L(A(1), L(A(4), A(w.now), A(int64(kind)), A(k), A(-1), A(pre), L(A(msg), s.S(), L(A(0)))))
		if err != nil {
			sink.Add(c, L(A(0)), false)
			sink.Stat("helper=refused")
			continue
		}
		got := verifyConditionGo(out[0])
		wt, ok := w.parseWitness(out[0].Witness, kind, []int64{msg})
		if !ok {
			sink.Violate("helper-witness-unreadable", "the helper produced a witness the harness cannot interpret", c.String(), out[0].Witness)
		}
		sink.Add(c, L(A(1), wt.S(), AB(got)), true)
		sink.Stat(fmt.Sprintf("helper-accept=%v", got))
	}
	// output helpers
	for i := 0; i < n; i++ {
		bm, _ := Blind(rng, randHex(rng, 32), 1, "00")
		bbytes, _ := hex.DecodeString(bm.B_)
		msg := w.newMsg(bbytes)
		k := int64(1 + rng.Intn(nCondKeys))
		keys := w.pickKeys(1+rng.Intn(3), 0)
		if rng.Intn(4) != 0 {
			keys[rng.Intn(len(keys))] = k
		}
		pre := int64(1 + rng.Intn(4))
		lock := pre
		if rng.Intn(5) == 0 {
			lock = int64(1 + rng.Intn(4))
		}
		var outs cashu.BlindedMessages
		var err error
		if kind == 0 {
			outs, err = nut11.AddSignatureToOutputs(cashu.BlindedMessages{bm}, w.keys[k-1])
		} else {
			outs, err = nut14.AddWitnessHTLCToOutputs(cashu.BlindedMessages{bm}, hex.EncodeToString(w.preimageBytes(pre)), w.keys[k-1])
		}
		must(err)
		wt, ok := w.parseWitness(outs[0].Witness, kind, []int64{msg})
		ks := make([]S, len(keys))
		for j, kk := range keys {
			ks[j] = A(kk)
		}
		var d S
		if kind == 0 {
			d = L(A(0), A(keys[0]))
		} else {
			d = L(A(1), A(lock), A(1))
		}
		c := L(A(1), L(A(5), A(int64(kind)), A(k), A(-1), A(pre), LL(ks), d, L(A(msg), A(1), L(A(0)))))
		if !ok {
			sink.Violate("helper-witness-unreadable", "the output helper produced a witness the harness cannot interpret", c.String(), outs[0].Witness)
		}
		// evaluate like verifyBlindedMessages does for one output with n_sigs = 1
		got := w.outputOKGo(outs[0], kind, w.hashHex(lock), keys)
		sink.Add(c, L(wt.S(), AB(got)), true)
		sink.Stat(fmt.Sprintf("outhelper-accept=%v", got))
	}
}

// outputOKGo evaluates one output witness the way verifyBlindedMessages does, with the real library functions.
func (w *condWorld) outputOKGo(bm cashu.BlindedMessage, kind int, lockHex string, keys []int64) bool {
	bbytes, err := hex.DecodeString(bm.B_)
	if err != nil {
		return false
	}
	hash := sha256.Sum256(bbytes)
	var sigs []string
	if kind == 0 {
		var wt nut11.P2PKWitness
		if json.Unmarshal([]byte(bm.Witness), &wt) != nil {
			return false
		}
		sigs = wt.Signatures
	} else {
		var wt nut14.HTLCWitness
		if json.Unmarshal([]byte(bm.Witness), &wt) != nil {
			return false
		}
		pb, err := hex.DecodeString(wt.Preimage)
		if err != nil {
			return false
		}
		hb := sha256.Sum256(pb)
		if len(lockHex) != 64 || hex.EncodeToString(hb[:]) != lockHex {
			return false
		}
		sigs = wt.Signatures
	}
	if nut11.DuplicateSignatures(sigs) {
		return false
	}
	pks := make([]*btcec.PublicKey, len(keys))
	for i, k := range keys {
		pks[i] = w.keys[k-1].PubKey()
	}
	return nut11.HasValidSignatures(hash[:], sigs, 1, pks)
}

// parseWitness maps a concrete witness produced by the library back to the abstract form:
// every signature is checked against every (key, candidate message).
func (w *condWorld) parseWitness(raw string, kind int, msgs []int64) (cWit, bool) {
	var sigs []string
	wt := cWit{typ: 1}
	if kind == 1 {
		var hw nut14.HTLCWitness
		if json.Unmarshal([]byte(raw), &hw) != nil {
			return cWit{}, false
		}
		wt.typ = 2
		wt.pre = -1
		pb, err := hex.DecodeString(hw.Preimage)
		if err == nil {
			for h := int64(0); h < 6; h++ {
				if string(w.preimageBytes(h)) == string(pb) {
					wt.pre = h
				}
			}
		}
		sigs = hw.Signatures
	} else {
		var pw nut11.P2PKWitness
		if json.Unmarshal([]byte(raw), &pw) != nil {
			return cWit{}, false
		}
		sigs = pw.Signatures
	}
	ok := true
	for _, sg := range sigs {
		found := false
		parsed, err := nut11.ParseSignature(sg)
		if err == nil {
			for ki, key := range w.keys {
				for _, m := range msgs {
					hash := sha256.Sum256(w.msgBytes(m))
					if parsed.Verify(hash[:], key.PubKey()) {
						wt.sigs = append(wt.sigs, cSig{ok: true, k: int64(ki + 1), m: m, n: -1})
						found = true
					}
				}
			}
		}
		if !found {
			ok = false
			wt.sigs = append(wt.sigs, cSig{id: 99})
		}
	}
	return wt, ok
}

// condSwap: whole swap / melt requests through the real mint.
func condSwap(kind int) streamFn {
	return func(sink *Sink, rng *rand.Rand, tier string, scratch string) {
		start := time.Now()
		w := newCondWorld(rng)
		tm := NewTM(scratch, rng, nil)
		defer tm.Close()
		id := tm.ActiveId()
		n := 400
		if tier == "thorough" {
			n = 6000
		}
		for i := 0; i < n; i++ {
			if rng.Intn(7) == 0 {
				w.helperSwap(sink, tm, kind, id)
				continue
			}
			melt := rng.Intn(5) == 0
			nin := 1 + rng.Intn(3)
			var secs []cSecret
			base := w.genSecret(kind, 1)
			if rng.Intn(3) == 0 {
				base = w.genSecret(kind, 0)
			}
			sigAllPos := rng.Intn(nin)
			for j := 0; j < nin; j++ {
				switch x := rng.Intn(10); {
				case j == sigAllPos:
					secs = append(secs, base)
				case x < 4:
					secs = append(secs, cSecret{plain: true})
				case x < 8:
					c := base // same condition, fresh nonce
					c.nonce = ""
					secs = append(secs, c)
				case x < 9:
					secs = append(secs, w.nearCondition(base))
				default:
					secs = append(secs, w.genSecret(kind, -1))
				}
			}
			if nin > 1 && rng.Intn(4) == 0 {
				// the richer of two neighbouring conditions first
				secs[0], secs[sigAllPos] = secs[sigAllPos], secs[0]
			}
			var ins []S
			var proofs cashu.Proofs
			var total uint64
			anyLocked := false
			for j := range secs {
				secret := w.secretString(&secs[j])
				if len(secret) > cashu.MAX_SECRET_LENGTH {
					// the length cap is C04's business; keep this stream about conditions
					secs[j] = cSecret{plain: true}
					secret = w.secretString(&secs[j])
					sink.Stat("oversize-secret-replaced")
				}
				msg := w.newMsg([]byte(secret))
				wt := w.genWitness(secs[j], msg)
				if !secs[j].plain && rng.Intn(3) != 0 {
					// mostly satisfiable inputs so that the SIG_ALL logic is reached
					wt = w.goodWitness(secs[j], msg)
				}
				amt := uint64(1) << uint(rng.Intn(4))
				total += amt
				p := tm.SignDirect(secret, amt, id)
				p.Witness = w.witnessString(wt)
				proofs = append(proofs, p)
				ins = append(ins, L(A(msg), secs[j].S(), wt.S()))
				anyLocked = anyLocked || !secs[j].plain
			}
			if melt {
				req, _ := ExternalInvoice(total * 1000)
				tm.LN.FeeFn = func(uint64) uint64 { return 0 }
				q, err := tm.M.RequestMeltQuote(nut05.PostMeltQuoteBolt11Request{Request: req, Unit: "sat"})
				must(err)
				_, err = tm.M.MeltTokens(context.Background(), nut05.PostMeltBolt11Request{Quote: q.Id, Inputs: proofs})
				c := L(A(1), L(A(3), A(w.now), LL(ins)))
				sink.Add(c, L(AB(err == nil)), anyLocked)
				sink.Stat(fmt.Sprintf("melt-accept=%v", err == nil))
				continue
			}
			// outputs
			var outs []S
			var bms cashu.BlindedMessages
			split := cashu.AmountSplit(total)
			main, _ := authorised(base)
			for _, amt := range split {
				bm, _ := Blind(rng, randHex(rng, 32), amt, id)
				bbytes, _ := hex.DecodeString(bm.B_)
				msg := w.newMsg(bbytes)
				var wt cWit
				switch x := rng.Intn(10); {
				case x < 6 && len(main) > 0:
					wt = w.goodOutputWitness(base, msg)
				case x < 8:
					wt = w.genWitness(base, msg)
				default:
					wt = cWit{}
				}
				bm.Witness = w.witnessString(wt)
				bms = append(bms, bm)
				outs = append(outs, L(A(msg), A(1), wt.S()))
			}
			_, err := tm.M.Swap(proofs, bms)
			c := L(A(1), L(A(2), A(w.now), LL(ins), LL(outs)))
			sink.Add(c, L(AB(err == nil)), anyLocked)
			sink.Stat(fmt.Sprintf("swap-accept=%v", err == nil))
			sink.Stat(fmt.Sprintf("swap-inputs=%d", nin))
		}
		sink.Close("swap/melt requests through Mint.Swap/MeltTokens: 1-3 inputs (plain / same condition / other condition), the SIG_ALL input at every position, "+
			"outputs signed / unsigned / wrongly signed; non-trivial = at least one locked input; distinct by abstract case", false, start)
	}
}

// goodWitness builds a witness meant to satisfy the lock (enough distinct authorised signers, right preimage).
func (w *condWorld) goodWitness(s cSecret, msg int64) cWit {
	main, refund := authorised(s)
	expired := false
	need := int64(1)
	for _, t := range s.tags {
		if t.typ == 4 && t.has && t.v > 0 && t.v < w.now {
			expired = true
		}
		if t.typ == 2 && t.has && t.v > 0 {
			need = t.v
		}
	}
	pool := main
	if expired && len(refund) > 0 {
		pool = refund
		need = 1
	}
	wt := cWit{typ: 1}
	if s.kind == 1 {
		wt.typ = 2
		wt.pre = s.hash
		if wt.pre < 0 {
			wt.pre = 1
		}
	}
	seen := map[int64]bool{}
	for _, k := range pool {
		if k > 0 && !seen[k] && int64(len(wt.sigs)) < need {
			seen[k] = true
			wt.sigs = append(wt.sigs, cSig{ok: true, k: k, m: msg, n: 0})
		}
	}
	return wt
}

func (w *condWorld) goodOutputWitness(s cSecret, msg int64) cWit {
	wt := w.goodWitness(s, msg)
	if len(wt.sigs) == 0 {
		main, _ := authorised(s)
		for _, k := range main {
			if k > 0 {
				wt.sigs = append(wt.sigs, cSig{ok: true, k: k, m: msg, n: 0})
				break
			}
		}
	}
	return wt
}

// helperSwap: a well-formed single-signer lock; every witness comes from the library's own helpers;
// the mint must accept (monitor), and the abstract case is rebuilt from the produced witnesses.
func (w *condWorld) helperSwap(sink *Sink, tm *TM, kind int, id string) {
	rng := w.rng
	k := int64(1 + rng.Intn(nCondKeys))
	key := w.keys[k-1]
	s := cSecret{kind: kind}
	sigall := rng.Intn(3) != 0
	variant := "signer"
	if kind == 0 {
		s.dataKey = k
	} else {
		s.isHash, s.hash, s.len64 = true, int64(1+rng.Intn(4)), true
		if rng.Intn(4) == 0 {
			variant = "nopubkeys"
		} else {
			s.tags = append(s.tags, cTag{typ: 2, has: true, v: 1}, cTag{typ: 3, keys: []int64{k}})
		}
	}
	if sigall {
		s.tags = append(s.tags, cTag{typ: 1, v: 1})
	}
	if rng.Intn(3) == 0 {
		s.tags = append(s.tags, cTag{typ: 4, has: true, v: w.now + 7200})
	}
	nin := 1 + rng.Intn(2)
	var proofs cashu.Proofs
	var msgs []int64
	var secs []cSecret
	var total uint64
	for j := 0; j < nin; j++ {
		c := s
		c.nonce = ""
		secret := w.secretString(&c)
		secs = append(secs, c)
		msgs = append(msgs, w.newMsg([]byte(secret)))
		amt := uint64(1) << uint(rng.Intn(4))
		total += amt
		proofs = append(proofs, tm.SignDirect(secret, amt, id))
	}
	pre := hex.EncodeToString(w.preimageBytes(s.hash))
	var err error
	if kind == 0 {
		proofs, err = nut11.AddSignatureToInputs(proofs, key)
	} else {
		sec, derr := nut10.DeserializeSecret(proofs[0].Secret)
		must(derr)
		proofs, err = nut14.AddWitnessHTLC(proofs, sec, pre, key)
	}
	must(err)
	var bms cashu.BlindedMessages
	var omsgs []int64
	for _, amt := range cashu.AmountSplit(total) {
		bm, _ := Blind(rng, randHex(rng, 32), amt, id)
		bbytes, _ := hex.DecodeString(bm.B_)
		omsgs = append(omsgs, w.newMsg(bbytes))
		bms = append(bms, bm)
	}
	if sigall {
		if kind == 0 {
			bms, err = nut11.AddSignatureToOutputs(bms, key)
		} else {
			bms, err = nut14.AddWitnessHTLCToOutputs(bms, pre, key)
		}
		must(err)
	}
	var ins, outs []S
	for j, p := range proofs {
		wt, ok := w.parseWitness(p.Witness, kind, []int64{msgs[j]})
		if !ok {
			sink.Violate("helper-witness-unreadable", "input helper witness not interpretable", p.Witness, nil)
		}
		ins = append(ins, L(A(msgs[j]), secs[j].S(), wt.S()))
	}
	for j, bm := range bms {
		wt := cWit{}
		if bm.Witness != "" {
			var ok bool
			wt, ok = w.parseWitness(bm.Witness, kind, []int64{omsgs[j]})
			if !ok {
				sink.Violate("helper-witness-unreadable", "output helper witness not interpretable", bm.Witness, nil)
			}
		}
		outs = append(outs, L(A(omsgs[j]), A(1), wt.S()))
	}
	_, serr := tm.M.Swap(proofs, bms)
	c := L(A(1), L(A(2), A(w.now), LL(ins), LL(outs)))
	sink.Add(c, L(AB(serr == nil)), true)
	sink.Stat(fmt.Sprintf("helper-swap-accept=%v", serr == nil))
	if serr != nil {
		sig := fmt.Sprintf("helper-witness-rejected kind=%d sigall=%v lock=%s", kind, sigall, variant)
		sink.Violate(sig, fmt.Sprintf("witnesses made by the library's signing helpers were rejected by Mint.Swap: %v", serr), c.String(),
			map[string]any{"inputs": proofs, "outputs": bms})
	}
}

func init() {
	register("c12-eval", "C12", condEval(0))
	register("c12-swap", "C12", condSwap(0))
	register("c13-eval", "C13", condEval(1))
	register("c13-swap", "C13", condSwap(1))
}
