package main

// Generators of the two HTTP streams: c20-http (random histories, one request per rejection cause,
// replays and near-replays of cached requests, routing and decoding probes, injected storage and
// Lightning faults) and c06-http (a mutation grammar over valid requests of the seven operations).

import (
	"encoding/hex"
	"crypto/sha256"
	"bytes"
	"fmt"
	"math/rand"
	"sort"
	"strings"
	"time"

	"github.com/elnosh/gonuts/cashu"
)

// ---------------- honest traffic through HTTP ----------------

func (s *HS) hMintQuote(amount uint64, withKey bool) *hMintQ {
	ex := s.do(s.mintQuoteReq(amount, "sat", withKey, false))
	return s.mq[ex.ab.newid]
}

func (s *HS) hFund(pollFirst, withKey bool) *hMintQ {
	amount := fundAmounts[s.rng.Intn(len(fundAmounts))]
	if s.cfg.maxMint > 0 && amount > s.cfg.maxMint {
		amount = s.cfg.maxMint
	}
	q := s.hMintQuote(amount, withKey)
	if q == nil {
		return nil
	}
	s.Settle(q)
	if pollFirst {
		s.do(s.mintStateReq(q, false))
	}
	sk := 0
	if withKey {
		sk = 1
	}
	ex := s.do(s.mintReq(q, s.freshOutputs(cashu.AmountSplit(amount)), sk))
	s.remember(ex)
	return q
}

// remember keeps successful requests on the cached routes for the replay probes
func (s *HS) remember(ex *exchange) {
	if ex.status == 200 && (ex.spec.route == rtSwap || ex.spec.route == rtMint) && ex.spec.method == "POST" {
		s.cached = append(s.cached, ex)
		if len(s.cached) > 6 {
			s.cached = s.cached[1:]
		}
	}
}

func (s *HS) honestIns(max int) []inSpec {
	sp := s.pickSome(s.spendable(), max)
	var ins []inSpec
	for _, x := range sp {
		ins = append(ins, s.honest(x))
	}
	return ins
}

// spendable proofs without spending conditions or oversized secrets, largest amount first
func (s *HS) largestFirst() []*hSecret {
	var l []*hSecret
	for _, x := range s.spendable() {
		if len(x.secret) <= 64 {
			l = append(l, x)
		}
	}
	sort.SliceStable(l, func(i, j int) bool { return l[i].amount > l[j].amount })
	return l
}

func (s *HS) ensureSpendable(n int) bool {
	for tries := 0; len(s.largestFirst()) < n && tries < 4; tries++ {
		s.hFund(false, false)
	}
	return len(s.largestFirst()) >= n
}

func (s *HS) hSwap() *exchange {
	if !s.ensureSpendable(1) {
		return nil
	}
	ins := s.honestIns(3)
	ex := s.do(s.swapReq(ins, s.honestSwapOutputs(ins)))
	s.remember(ex)
	return ex
}

// a melt quote for a fresh external invoice that the given inputs can pay
func (s *HS) hMeltQuoteFor(ins []inSpec, over bool) *hMeltQ {
	var sum uint64
	for _, i := range ins {
		sum += i.amount
	}
	fees := s.feesFor(ins)
	var want uint64 = 1
	if sum > fees+2 {
		want = (sum - fees) * 100 / (100 + s.cfg.feePct + 1)
		if want == 0 {
			want = 1
		}
	}
	msat := want * 1000
	if s.rng.Intn(4) == 0 && want > 1 {
		msat = want*1000 - uint64(1+s.rng.Intn(999))
	}
	var part uint64
	if s.cfg.mpp && s.rng.Intn(3) == 0 {
		part = msat
		msat = msat + uint64(1000*(1+s.rng.Intn(5)))
	}
	if over {
		msat, part = (sum+5)*1000, 0
	}
	inv := s.newInvoice(msat)
	ex := s.do(s.meltQuoteReq(inv.req, "sat", part))
	return s.lq[ex.ab.newid]
}

func (s *HS) hMelt(script bool) *hMeltQ {
	if !s.ensureSpendable(1) {
		return nil
	}
	ins := s.honestIns(3)
	q := s.hMeltQuoteFor(ins, s.rng.Intn(12) == 0)
	if q == nil {
		return nil
	}
	if script {
		s.direct(func() { s.scriptFor(q) })
	}
	s.do(s.meltReq(q.id, ins))
	return q
}

func (s *HS) allLq() []*hMeltQ {
	var l []*hMeltQ
	for _, qh := range sortedInt64(keysOf(s.lq)) {
		l = append(l, s.lq[qh])
	}
	return l
}

func (s *HS) allMq() []*hMintQ {
	var l []*hMintQ
	for _, qh := range sortedInt64(keysOf(s.mq)) {
		l = append(l, s.mq[qh])
	}
	return l
}

func (s *HS) hPoll() {
	lqs, mqs := s.allLq(), s.allMq()
	switch {
	case len(lqs) > 0 && s.rng.Intn(3) != 0:
		q := lqs[s.rng.Intn(len(lqs))]
		if s.rng.Intn(3) == 0 {
			s.direct(func() { s.ScriptLook(q, []int{0, 1, 2, 3, 4}[s.rng.Intn(5)], s.fresh()) })
		}
		s.do(s.meltStateReq(q, s.rng.Intn(12) == 0))
	case len(mqs) > 0:
		q := mqs[s.rng.Intn(len(mqs))]
		r := s.mintStateReq(q, s.rng.Intn(12) == 0)
		if s.rng.Intn(4) == 0 {
			r.method = "POST" // the route also accepts POST; the handler does not read a body
		}
		s.do(r)
	}
}

func (s *HS) hCheck() {
	var all []*hSecret
	for _, sh := range s.order {
		all = append(all, s.secrets[sh])
	}
	secs := s.pickSome(all, 6)
	seen := map[*hMeltQ]bool{}
	var ys []string
	for _, x := range secs {
		if q := s.lockedBy(x); q != nil {
			if len(seen) > 0 && !seen[q] {
				continue // Go visits pending quotes in map order: at most one still-locked quote per query
			}
			seen[q] = true
		}
		ys = append(ys, Yhex(x.secret))
	}
	if len(ys) > 1 && s.rng.Intn(4) == 0 {
		ys = append(ys, ys[0])
	}
	for i := s.rng.Intn(3); i > 0; i-- {
		ys = append(ys, Yhex(s.newSecret().secret))
	}
	s.do(s.checkReq(ys))
}

func (s *HS) hRestore() {
	var pick []*hB
	for _, bh := range sortedInt64(keysOf(s.bs)) {
		if s.rng.Intn(4) == 0 && len(pick) < 8 {
			pick = append(pick, s.bs[bh])
		}
	}
	s.rng.Shuffle(len(pick), func(a, b int) { pick[a], pick[b] = pick[b], pick[a] })
	if len(pick) > 0 && s.rng.Intn(4) == 0 {
		pick = append(pick, pick[0])
	}
	for i := s.rng.Intn(3); i > 0; i-- {
		pick = append(pick, s.newB(s.newSecret(), 1, s.activeHandle()))
	}
	s.do(s.restoreReq(pick))
}

func (s *HS) hKeys() {
	switch s.rng.Intn(6) {
	case 0:
		s.do(get(rtKeysets, "/v1/keysets"))
	case 1:
		i := s.rng.Intn(len(s.tm.Order))
		r := get(rtKeysId, "/v1/keys/"+s.tm.Order[i])
		r.arg = int64(i)
		s.do(r)
	case 2:
		id := []string{"00ffffffffffffff", "nosuchkeyset", "0"}[s.rng.Intn(3)]
		if len(s.cached) > 0 && s.rng.Intn(2) == 0 {
			// the keyset handler looks its path segment up in the cache shared with NUT-19: digests of a cached
			// request, which a client can compute, must not be served as if they were keyset ids
			c := s.cached[s.rng.Intn(len(s.cached))].spec
			var pre []byte
			switch s.rng.Intn(3) {
			case 0:
				pre = append(append(append(append([]byte(c.method), 0), []byte(c.target)...), 0), c.body...)
			case 1:
				pre = append(append([]byte(c.method), []byte(c.target)...), c.body...)
			default:
				pre = c.body
			}
			d := sha256.Sum256(pre)
			id = hex.EncodeToString(d[:])
			s.stats["keys=digest-of-cached-request"]++
		}
		r := get(rtKeysId, "/v1/keys/"+id)
		r.arg = -1
		s.do(r)
	case 3:
		// the literal cache key of the active-keyset response used as a keyset id
		r := get(rtKeysId, "/v1/keys/active_keyset_key")
		r.arg = -2
		r.label = "active_keyset_key"
		s.do(r)
	case 4:
		s.do(get(rtInfo, "/v1/info"))
	default:
		s.do(get(rtKeys, "/v1/keys"))
	}
}

// ---------------- semantically invalid requests (one cause at a time) ----------------

func (s *HS) cause(name string, f func() *exchange) {
	ex := f()
	if ex != nil {
		s.stats["cause="+name]++
		if ex.status == 400 {
			s.nontrivial = true
		}
	}
}

func (s *HS) oneSpendable() (inSpec, bool) {
	if !s.ensureSpendable(1) {
		return inSpec{}, false
	}
	sp := s.largestFirst() // proofs that are spendable as they are (no lock, no oversized secret)
	return s.honest(sp[s.rng.Intn(len(sp))]), true
}

// a PAID quote that has not been issued yet
func (s *HS) paidQuote(withKey bool) *hMintQ {
	amount := []uint64{2, 4, 8, 16}[s.rng.Intn(4)]
	if s.cfg.maxMint > 0 && amount > s.cfg.maxMint {
		amount = 1
	}
	q := s.hMintQuote(amount, withKey)
	if q != nil {
		s.Settle(q)
	}
	return q
}

func (s *HS) causeSweep(fees []uint) {
	c := s.cause
	c("EUnit-mintquote", func() *exchange { return s.do(s.mintQuoteReq(10, "usd", false, false)) })
	c("EUnit-meltquote", func() *exchange { return s.do(s.meltQuoteReq(s.newInvoice(5000).req, "eur", 0)) })
	c("EBadPubkey", func() *exchange { return s.do(s.mintQuoteReq(10, "sat", false, true)) })
	if s.cfg.maxMint > 0 {
		c("EMintLimit", func() *exchange { return s.do(s.mintQuoteReq(s.cfg.maxMint+1, "sat", false, false)) })
	}
	if s.cfg.maxBalance > 0 && (s.cfg.maxMint == 0 || s.cfg.maxMint > s.cfg.maxBalance) {
		c("EMintDisabled", func() *exchange { return s.do(s.mintQuoteReq(s.cfg.maxBalance+1, "sat", false, false)) })
	}
	if s.cfg.maxMelt > 0 {
		c("EMeltLimit", func() *exchange { return s.do(s.meltQuoteReq(s.newInvoice((s.cfg.maxMelt+1)*1000).req, "sat", 0)) })
	}
	c("EQuoteNotExist-mintstate", func() *exchange { return s.do(s.mintStateReq(&hMintQ{}, true)) })
	c("EQuoteNotExist-meltstate", func() *exchange { return s.do(s.meltStateReq(&hMeltQ{}, true)) })
	c("EQuoteNotExist-mint", func() *exchange {
		return s.do(s.mintReq(&hMintQ{id: "nosuchquote"}, s.freshOutputs([]uint64{1}), 0))
	})
	c("EQuoteNotExist-melt", func() *exchange {
		i, ok := s.oneSpendable()
		if !ok {
			return nil
		}
		return s.do(s.meltReq("nosuchquote", []inSpec{i}))
	})
	c("EInvoice", func() *exchange { return s.do(s.meltQuoteReq("lnbc1notaninvoice", "sat", 0)) })
	c("EMpp", func() *exchange { return s.do(s.meltQuoteReq(s.newInvoice(5000).req, "sat", 7000)) })
	// mint quote life cycle
	c("ENotPaid", func() *exchange {
		q := s.hMintQuote(4, false)
		if q == nil {
			return nil
		}
		ex := s.do(s.mintReq(q, s.freshOutputs([]uint64{4}), 0))
		s.Settle(q)
		s.remember(s.do(s.mintReq(q, s.freshOutputs([]uint64{4}), 0)))
		c("EIssued", func() *exchange { return s.do(s.mintReq(q, s.freshOutputs([]uint64{4}), 0)) })
		return ex
	})
	mintBad := func(name string, withKey bool, bad func(q *hMintQ) reqSpec) {
		c(name, func() *exchange {
			q := s.paidQuote(withKey)
			if q == nil {
				return nil
			}
			ex := s.do(bad(q))
			sk := 0
			if withKey {
				sk = 1
			}
			// the corrected request still works
			ok := s.do(s.mintReq(q, s.freshOutputs(cashu.AmountSplit(q.amount)), sk))
			s.remember(ok)
			if ex.status != 200 && ok.status != 200 && !s.lnFaulty {
				s.sink.Violate("corrected-request-failed:mint:"+name, fmt.Sprintf("answered %d %.200s", ok.status, string(ok.res.body)), LL(s.hitems).String(), nil)
			}
			return ex
		})
	}
	mintBad("EOverQuote", false, func(q *hMintQ) reqSpec { return s.mintReq(q, s.freshOutputs(cashu.AmountSplit(q.amount+1)), 0) })
	mintBad("EOutAmount-overflow", false, func(q *hMintQ) reqSpec { return s.mintReq(q, s.freshOutputs([]uint64{1 << 63, 1 << 63}), 0) })
	mintBad("EDupOutputs-mint", false, func(q *hMintQ) reqSpec {
		outs := s.freshOutputs([]uint64{1})
		return s.mintReq(q, append(outs, outs[0]), 0)
	})
	mintBad("EUnknownKeyset-output", false, func(q *hMintQ) reqSpec {
		outs := s.freshOutputs([]uint64{1})
		outs[0].ks = -1
		return s.mintReq(q, outs, 0)
	})
	mintBad("EBadB", false, func(q *hMintQ) reqSpec {
		outs := s.freshOutputs([]uint64{1})
		outs[0].point = false
		return s.mintReq(q, outs, 0)
	})
	mintBad("EOutAmount-notkey", false, func(q *hMintQ) reqSpec {
		outs := s.freshOutputs([]uint64{1})
		outs[0].amount = 3
		if q.amount < 3 {
			outs[0].amount = 0
		}
		return s.mintReq(q, outs, 0)
	})
	mintBad("EQuoteSig-none", true, func(q *hMintQ) reqSpec { return s.mintReq(q, s.freshOutputs([]uint64{1}), 0) })
	mintBad("EQuoteSig-otherkey", true, func(q *hMintQ) reqSpec { return s.mintReq(q, s.freshOutputs([]uint64{1}), 2) })
	mintBad("EQuoteSig-garbage", true, func(q *hMintQ) reqSpec { return s.mintReq(q, s.freshOutputs([]uint64{1}), 3) })
	mintBad("EAlreadySigned-mint", false, func(q *hMintQ) reqSpec {
		for _, bh := range sortedInt64(keysOf(s.bs)) {
			if b := s.bs[bh]; b.signed && b.r != nil {
				return s.mintReq(q, []outSpec{{b: b, amount: 1, ks: s.activeHandle(), point: true}}, 0)
			}
		}
		return s.mintReq(q, s.freshOutputs(cashu.AmountSplit(q.amount+1)), 0)
	})
	// swap
	swapBad := func(name string, build func(i inSpec) ([]inSpec, []outSpec, bool)) {
		c(name, func() *exchange {
			i, ok := s.oneSpendable()
			if !ok {
				return nil
			}
			ins, outs, ok := build(i)
			if !ok {
				return nil
			}
			return s.do(s.swapReq(ins, outs))
		})
	}
	honestOut := func(i inSpec) []outSpec { return s.honestSwapOutputs([]inSpec{i}) }
	swapBad("EInsufficient", func(i inSpec) ([]inSpec, []outSpec, bool) {
		return []inSpec{i}, s.freshOutputs(cashu.AmountSplit(i.amount + 1)), true
	})
	swapBad("EOutAmount-swap", func(i inSpec) ([]inSpec, []outSpec, bool) {
		return []inSpec{i}, s.freshOutputs([]uint64{1 << 63, 1 << 63, 1}), true
	})
	swapBad("EDupOutputs-swap", func(i inSpec) ([]inSpec, []outSpec, bool) {
		outs := honestOut(i)
		if len(outs) == 0 {
			return nil, nil, false
		}
		d := outs[0]
		d.amount = 0 // keeps the sum within the inputs: the duplicate B_ is the only fault
		return []inSpec{i}, append(outs, d), true
	})
	swapBad("EAlreadySigned-swap", func(i inSpec) ([]inSpec, []outSpec, bool) {
		for _, bh := range sortedInt64(keysOf(s.bs)) {
			if b := s.bs[bh]; b.signed && b.r != nil {
				return []inSpec{i}, []outSpec{{b: b, amount: 1, ks: s.activeHandle(), point: true}}, true
			}
		}
		return nil, nil, false
	})
	swapBad("EUnknownKeyset-input", func(i inSpec) ([]inSpec, []outSpec, bool) {
		outs := honestOut(i)
		i.ks = -2
		return []inSpec{i}, outs, true
	})
	swapBad("EInvalidProof-amount", func(i inSpec) ([]inSpec, []outSpec, bool) {
		outs := honestOut(i)
		i.amount *= 2 // another key amount; the signature is for the original one
		return []inSpec{i}, outs, true
	})
	swapBad("EInvalidProof-junk", func(i inSpec) ([]inSpec, []outSpec, bool) {
		outs := honestOut(i)
		i.cKind = 1
		return []inSpec{i}, outs, true
	})
	swapBad("EBadC", func(i inSpec) ([]inSpec, []outSpec, bool) {
		outs := honestOut(i)
		i.cKind = 2
		return []inSpec{i}, outs, true
	})
	swapBad("EDupProofs", func(i inSpec) ([]inSpec, []outSpec, bool) {
		j := i
		if s.rng.Intn(2) == 0 {
			j.wit = s.fresh()
		}
		return []inSpec{i, j}, honestOut(i), true
	})
	swapBad("EProofUsed", func(i inSpec) ([]inSpec, []outSpec, bool) {
		ul := s.usedOrLocked()
		for _, u := range ul {
			if u.consumed > 0 {
				return []inSpec{s.honest(u)}, honestOut(s.honest(u)), true
			}
		}
		return nil, nil, false
	})
	c("ENoProofs", func() *exchange { return s.do(s.swapReq(nil, nil)) })
	c("EProofAmount", func() *exchange {
		// inputs worth less than their own fee: needs a keyset with input_fee_ppk > 1000 and a 1-sat proof
		for _, x := range s.spendable() {
			i := s.honest(x)
			if x.amount < s.feesFor([]inSpec{i}) {
				return s.do(s.swapReq([]inSpec{i}, nil))
			}
		}
		return nil
	})
	c("ESecretLong", func() *exchange {
		// a wallet can have a 513-byte secret signed (the mint never sees it) and then cannot spend it
		q := s.paidQuote(false)
		if q == nil {
			return nil
		}
		sec := s.newSecret()
		sec.secret = strings.Repeat("ab", 257)
		b := s.newB(sec, q.amount, s.activeHandle())
		ex := s.do(s.mintReq(q, []outSpec{{b: b, amount: q.amount, ks: s.activeHandle(), point: true}}, 0))
		if ex.status != 200 || !sec.held {
			return nil
		}
		i := s.honest(sec)
		return s.do(s.swapReq([]inSpec{i}, honestOut(i)))
	})
	c("ECond-p2pk-no-witness", func() *exchange {
		q := s.paidQuote(false)
		if q == nil {
			return nil
		}
		sec := s.newSecret()
		sec.secret = `["P2PK",{"nonce":"` + randHex(s.rng, 16) + `","data":"` + p2pkLockKey + `","tags":[]}]`
		b := s.newB(sec, q.amount, s.activeHandle())
		ex := s.do(s.mintReq(q, []outSpec{{b: b, amount: q.amount, ks: s.activeHandle(), point: true}}, 0))
		if ex.status != 200 || !sec.held {
			return nil
		}
		i := s.honest(sec)
		return s.do(s.swapReq([]inSpec{i}, honestOut(i)))
	})
	// melt life cycle: pending, paid
	c("EMeltExists", func() *exchange {
		inv := s.newInvoice(3000)
		if s.do(s.meltQuoteReq(inv.req, "sat", 0)).status != 200 {
			return nil
		}
		return s.do(s.meltQuoteReq(inv.req, "sat", 0))
	})
	c("EQuotePending-melt", func() *exchange {
		if !s.ensureSpendable(3) {
			return nil
		}
		sp := s.largestFirst()
		a := []inSpec{s.honest(sp[0])}
		q := s.hMeltQuoteFor(a, false)
		if q == nil {
			return nil
		}
		s.direct(func() { s.ScriptPay(q, 2, s.fresh()) }) // the backend answers "pending"
		if ex := s.do(s.meltReq(q.id, a)); ex.status != 200 {
			return nil
		}
		c("EProofPending", func() *exchange { return s.do(s.swapReq(a, s.honestSwapOutputs(a))) })
		other := []inSpec{s.honest(sp[1])}
		ex := s.do(s.meltReq(q.id, other))
		// the payment then succeeds; a poll settles the quote
		s.direct(func() { s.ScriptLook(q, 0, s.fresh()) })
		s.do(s.meltStateReq(q, false))
		c("EMeltPaid", func() *exchange { return s.do(s.meltReq(q.id, other)) })
		return ex
	})
	c("EInsufficient-melt", func() *exchange {
		i, ok := s.oneSpendable()
		if !ok {
			return nil
		}
		q := s.hMeltQuoteFor([]inSpec{i}, true)
		if q == nil {
			return nil
		}
		return s.do(s.meltReq(q.id, []inSpec{i}))
	})
	// Lightning backend failures
	c("ELn-create-invoice", func() *exchange {
		s.EnvCreateErr(true)
		ex := s.do(s.mintQuoteReq(10, "sat", false, false))
		s.EnvCreateErr(false)
		s.leak(ex)
		return ex
	})
	c("ELn-invoice-status", func() *exchange {
		q := s.hMintQuote(4, false)
		if q == nil {
			return nil
		}
		s.EnvInvErr(true)
		ex := s.do(s.mintStateReq(q, false))
		s.leak(ex)
		s.leak(s.do(s.mintReq(q, s.freshOutputs([]uint64{4}), 0)))
		s.EnvInvErr(false)
		return ex
	})
	c("ELn-internal-settlement", func() *exchange {
		mq := s.hMintQuote(2, false)
		if mq == nil || !s.ensureSpendable(2) {
			return nil
		}
		lqx := s.do(s.meltQuoteReq(mq.req, "sat", 0))
		lq := s.lq[lqx.ab.newid]
		if lq == nil {
			return nil
		}
		var ins []inSpec
		var sum uint64
		for _, x := range s.spendable() {
			if sum >= 2+s.feesFor(ins)+1 {
				break
			}
			ins = append(ins, s.honest(x))
			sum += x.amount
		}
		s.EnvInvErr(true)
		ex := s.do(s.meltReq(lq.id, ins))
		s.EnvInvErr(false)
		s.leak(ex)
		return ex
	})
	// storage failures at every position of an otherwise valid request
	c("EDb", func() *exchange {
		var last *exchange
		for pos := 0; pos < 8; pos++ {
			i, ok := s.oneSpendable()
			if !ok {
				return last
			}
			r := s.swapReq([]inSpec{i}, honestOut(i))
			r.faults, r.label = []int{pos}, "fault"
			last = s.do(r)
			s.leak(last)
		}
		return last
	})
	if len(s.tm.Order) < 3 {
		c("EInactiveKeyset", func() *exchange {
			old := s.activeHandle()
			s.Rotate(fees[s.rng.Intn(len(fees))])
			i, ok := s.oneSpendable()
			if !ok {
				return nil
			}
			outs := honestOut(i)
			if len(outs) == 0 {
				return nil
			}
			outs[0].ks = old
			return s.do(s.swapReq([]inSpec{i}, outs))
		})
	}
}

// a fixed valid public key the P2PK probe locks to (nobody signs for it)
const p2pkLockKey = "0279be667ef9dcbbac55a06295ce870b07029bfcdb2dce28d959f2815b16f81798"

// leak: after an injected storage or Lightning fault the body must be generic
func (s *HS) leak(ex *exchange) {
	if ex == nil || ex.status != 400 {
		return
	}
	s.stats["fault-answered-400"]++
	if ex.code == 10000 && (ex.detail == genericDetail || ex.detail == payFailDetail) {
		s.stats["fault-generic-body"]++
	}
}

// ---------------- faults on random operations ----------------

func (s *HS) hFault() {
	pos := []int{s.rng.Intn(7)}
	if s.rng.Intn(4) == 0 {
		pos = append(pos, pos[0]+1+s.rng.Intn(3))
	}
	var r reqSpec
	switch s.rng.Intn(7) {
	case 0:
		r = s.mintQuoteReq(8, "sat", false, false)
	case 1:
		q := s.paidQuote(false)
		if q == nil {
			return
		}
		r = s.mintReq(q, s.freshOutputs(cashu.AmountSplit(q.amount)), 0)
	case 2:
		i, ok := s.oneSpendable()
		if !ok {
			return
		}
		r = s.swapReq([]inSpec{i}, s.honestSwapOutputs([]inSpec{i}))
	case 3:
		r = s.meltQuoteReq(s.newInvoice(2000).req, "sat", 0)
	case 4:
		if !s.ensureSpendable(1) {
			return
		}
		ins := s.honestIns(2)
		q := s.hMeltQuoteFor(ins, false)
		if q == nil {
			return
		}
		r = s.meltReq(q.id, ins)
	case 5:
		var ys []string
		for _, x := range s.pickSome(s.spendable(), 3) {
			ys = append(ys, Yhex(x.secret))
		}
		r = s.checkReq(ys)
	default:
		var pick []*hB
		for _, bh := range sortedInt64(keysOf(s.bs)) {
			if len(pick) < 3 {
				pick = append(pick, s.bs[bh])
			}
		}
		r = s.restoreReq(pick)
	}
	r.faults, r.label = pos, "fault"
	s.nontrivial = true
	s.leak(s.do(r))
}

// ---------------- NUT-19: replays and near-replays ----------------

func (s *HS) replayProbe() {
	if len(s.cached) == 0 {
		s.hSwap()
		if len(s.cached) == 0 {
			return
		}
	}
	orig := s.cached[s.rng.Intn(len(s.cached))]
	rn := routeNames[orig.spec.route]
	sp := orig.spec
	kind := s.rng.Intn(9)
	names := []string{"identical", "identical", "trailing-space", "one-byte", "other-method", "other-cached-route", "query-added", "empty-query", "content-type"}
	sp.label = "replay-" + names[kind]
	s.nontrivial = true
	s.stats["replay="+names[kind]]++
	switch kind {
	case 0, 1:
		sp.replay = true
		ex := s.do(sp)
		if ex.status != 200 || !bytes.Equal(ex.res.body, orig.res.body) {
			s.sink.Violate("cache-replay-differs:"+rn, fmt.Sprintf("byte-identical replay answered %d %.200s; the original was answered %.200s", ex.status, string(ex.res.body), string(orig.res.body)),
				LL(s.hitems).String(), nil)
		}
		if ex.before != ex.after {
			s.sink.Violate("cache-replay-changed-state:"+rn, "a byte-identical replay changed the observable state", LL(s.hitems).String(),
				map[string]any{"before": ex.before, "after": ex.after})
		}
		return
	case 2:
		sp.body = append(append([]byte{}, sp.body...), ' ')
	case 3:
		// another spelling of the same JSON value: a space after the first colon
		i := bytes.IndexByte(sp.body, ':')
		sp.body = append(append(append([]byte{}, sp.body[:i+1]...), ' '), sp.body[i+1:]...)
	case 4:
		sp.method = "GET"
	case 5:
		if sp.route == rtSwap {
			sp.route, sp.target = rtMint, "/v1/mint/bolt11"
		} else {
			sp.route, sp.target = rtSwap, "/v1/swap"
		}
	case 6:
		sp.target += "?a=1"
	case 7:
		sp.target += "?"
	case 8:
		// the same bytes under a Content-Type the decoder refuses: the cache is consulted only after a successful decode
		sp.ctype = "text/plain"
	}
	ex := s.do(sp)
	s.notFromCache(ex, orig, names[kind])
}

// a swap or mint that is executed and answered 200 changes the state (inputs become spent, the quote
// ISSUED); a 200 that changes nothing, or that repeats the stored bytes with their random DLEQ
// nonces, was served from the cache
func (s *HS) notFromCache(ex, orig *exchange, kind string) {
	if ex.status == 200 && (ex.before == ex.after || (bytes.Equal(ex.res.body, orig.res.body) && bytes.Contains(orig.res.body, []byte("dleq")))) {
		s.sink.Violate("near-replay-served-from-cache:"+routeNames[orig.spec.route]+":"+kind,
			fmt.Sprintf("%s %s is not the cached request (%s %s) but was answered with its stored response", ex.spec.method, ex.spec.target, orig.spec.method, orig.spec.target),
			LL(s.hitems).String(), map[string]any{"request_body": trunc(string(ex.spec.body), 3000), "cached_request_body": trunc(string(orig.spec.body), 3000)})
	}
}

// bigBody: a valid swap whose body is not below REQUEST_BODY_SIZE_LIMIT (2 MiB) is executed and not stored:
// its byte-identical replay is executed again (and refused, the inputs being spent)
func (s *HS) bigBody() {
	i, ok := s.oneSpendable()
	if !ok {
		return
	}
	r := s.swapReq([]inSpec{i}, s.honestSwapOutputs([]inSpec{i}))
	t, _ := parseJSON(r.body)
	// body lengths limit-1 (stored), limit and limit+1 (not stored)
	t.get("inputs").a[0].set("witness", jS(""))
	pad := 2*1024*1024 - len(t.String()) + s.rng.Intn(3) - 1
	t.get("inputs").a[0].set("witness", jS(strings.Repeat("w", pad)))
	r.body, r.label = []byte(t.String()), "body-at-2MiB"
	s.nontrivial = true
	s.stats["replay=big-body"]++
	if ex := s.do(r); ex.status == 200 {
		r.label = "replay-body-at-2MiB"
		s.do(r)
	}
}

// splitProbe: POST /v1/swap? with body A||B (the decoder reads A), then POST /v1/swap?A with body B:
// different (method, URL, body) triples whose unseparated concatenations coincide.
func (s *HS) splitProbe() {
	if !s.ensureSpendable(2) {
		return
	}
	sp := s.largestFirst()
	ia, ib := s.honest(sp[0]), s.honest(sp[1])
	ra := s.swapReq([]inSpec{ia}, s.honestSwapOutputs([]inSpec{ia}))
	rb := s.swapReq([]inSpec{ib}, s.honestSwapOutputs([]inSpec{ib}))
	A, B := ra.body, rb.body
	first := ra
	first.target = "/v1/swap?"
	first.body = append(append([]byte{}, A...), B...)
	first.semBody = A
	first.label = "split-first"
	ex1 := s.do(first)
	if ex1.status != 200 {
		return
	}
	second := rb
	second.target = "/v1/swap?" + string(A)
	second.label = "split-second"
	ex2 := s.do(second)
	s.nontrivial = true
	s.stats["replay=split"]++
	s.notFromCache(ex2, ex1, "split-url-body")
	if ex2.status == 200 {
		s.remember(ex2)
	}
}

// ---------------- routing and decoding probes ----------------

var bodyRoutes = []int{rtMintQuote, rtMint, rtSwap, rtMeltQuote, rtMelt, rtCheck, rtRestore}

func routeTarget(rt int, pm string) string {
	switch rt {
	case rtKeys:
		return "/v1/keys"
	case rtKeysets:
		return "/v1/keysets"
	case rtMintQuote:
		return "/v1/mint/quote/" + pm
	case rtMint:
		return "/v1/mint/" + pm
	case rtSwap:
		return "/v1/swap"
	case rtMeltQuote:
		return "/v1/melt/quote/" + pm
	case rtMelt:
		return "/v1/melt/" + pm
	case rtCheck:
		return "/v1/checkstate"
	case rtRestore:
		return "/v1/restore"
	case rtInfo:
		return "/v1/info"
	case rtWs:
		return "/v1/ws"
	}
	return "/v1/nothing"
}

// validFor builds a request for route rt that is valid at the current state (nil when the state does not allow one)
func (s *HS) validFor(rt int) *reqSpec {
	var r reqSpec
	switch rt {
	case rtMintQuote:
		amount := uint64(1 + s.rng.Intn(64))
		if s.cfg.maxMint > 0 && amount > s.cfg.maxMint {
			amount = s.cfg.maxMint
		}
		r = s.mintQuoteReq(amount, "sat", s.rng.Intn(4) == 0, false)
	case rtMint:
		withKey := s.rng.Intn(4) == 0
		q := s.paidQuote(withKey)
		if q == nil {
			return nil
		}
		sk := 0
		if withKey {
			sk = 1
		}
		r = s.mintReq(q, s.freshOutputs(cashu.AmountSplit(q.amount)), sk)
	case rtSwap:
		if !s.ensureSpendable(1) {
			return nil
		}
		ins := s.honestIns(2)
		if s.rng.Intn(3) == 0 {
			ins[0].wit = s.fresh()
		}
		if s.rng.Intn(3) == 0 {
			ins[0].dleq = true
		}
		r = s.swapReq(ins, s.honestSwapOutputs(ins))
	case rtMeltQuote:
		part := uint64(0)
		if s.cfg.mpp && s.rng.Intn(2) == 0 {
			part = 2000
		}
		r = s.meltQuoteReq(s.newInvoice(uint64(3000+1000*s.rng.Intn(5))).req, "sat", part)
	case rtMelt:
		if !s.ensureSpendable(1) {
			return nil
		}
		var ins []inSpec
		var sum uint64
		for _, x := range s.largestFirst() {
			if len(ins) < 3 {
				ins = append(ins, s.honest(x))
				sum += x.amount
			}
		}
		q := s.hMeltQuoteFor(ins, false)
		if q == nil || sum < q.amount+q.fee+s.feesFor(ins) {
			return nil // the proofs at hand cannot pay this quote: no valid melt request at this state
		}
		r = s.meltReq(q.id, ins)
		if s.rng.Intn(3) == 0 {
			// NUT-08 change outputs: decoded, not used by this mint
			t, _ := parseJSON(r.body)
			t.set("outputs", s.outTrees(s.freshOutputs([]uint64{1})))
			r.body = []byte(t.String())
		}
	case rtCheck:
		var ys []string
		for _, x := range s.pickSome(s.spendable(), 3) {
			ys = append(ys, Yhex(x.secret))
		}
		for _, x := range s.pickSome(s.usedOrLocked(), 2) {
			ys = append(ys, Yhex(x.secret))
		}
		if len(ys) == 0 {
			ys = append(ys, Yhex(s.newSecret().secret))
		}
		r = s.checkReq(ys)
	case rtRestore:
		var pick []*hB
		for _, bh := range sortedInt64(keysOf(s.bs)) {
			if b := s.bs[bh]; b.r != nil && len(pick) < 4 && s.rng.Intn(3) == 0 {
				pick = append(pick, b)
			}
		}
		if len(pick) == 0 {
			pick = append(pick, s.newB(s.newSecret(), 1, s.activeHandle()))
		}
		r = s.restoreReq(pick)
	default:
		return nil
	}
	return &r
}

func (s *HS) routeProbe() {
	s.nontrivial = true
	switch s.rng.Intn(9) {
	case 0: // OPTIONS on any registered path
		rt := []int{rtKeys, rtKeysets, rtMintQuote, rtMint, rtSwap, rtMeltQuote, rtMelt, rtCheck, rtRestore, rtInfo, rtWs}[s.rng.Intn(11)]
		s.do(reqSpec{method: "OPTIONS", route: rt, target: routeTarget(rt, "bolt11"), pmOK: true, kind: bcEmpty, label: "options"})
	case 1: // a method the route is not registered for
		rt := []int{rtKeys, rtKeysets, rtMint, rtSwap, rtMeltQuote, rtMelt, rtCheck, rtRestore, rtInfo}[s.rng.Intn(9)]
		m := "POST"
		if rt != rtKeys && rt != rtKeysets && rt != rtInfo {
			m = "GET"
		}
		if s.rng.Intn(3) == 0 {
			m = []string{"PUT", "DELETE", "PATCH", "HEAD"}[s.rng.Intn(4)]
		}
		r := reqSpec{method: m, route: rt, target: routeTarget(rt, "bolt11"), pmOK: true, kind: bcEmpty, label: "method-not-registered"}
		if v := s.validFor(rt); v != nil && s.rng.Intn(2) == 0 {
			r.body, r.hasBody, r.kind, r.ctype = v.body, true, bcOk, v.ctype
		}
		s.do(r)
	case 2: // no such path
		t := []string{"/v1/nothing", "/", "/v1/swap/", "/v2/swap", "/v1/swap/extra", "/v1/mint/quote/bolt11/", "/v1/keys/a/b", "/v1"}[s.rng.Intn(8)]
		m := []string{"GET", "POST", "OPTIONS", "PUT"}[s.rng.Intn(4)]
		s.do(reqSpec{method: m, route: rtOther, target: t, pmOK: true, kind: bcEmpty, label: "no-such-path"})
	case 3: // another payment method in the path
		rt := []int{rtMintQuote, rtMint, rtMeltQuote, rtMelt}[s.rng.Intn(4)]
		pm := []string{"bolt12", "onchain", "BOLT11", "quote"}[s.rng.Intn(4)]
		if pm == "quote" && (rt == rtMintQuote || rt == rtMeltQuote) {
			pm = "bolt12"
		}
		if v := s.validFor(rt); v != nil {
			v.target, v.pmOK, v.label = routeTarget(rt, pm), false, "payment-method"
			s.do(*v)
		}
		if s.rng.Intn(2) == 0 {
			q := &hMintQ{}
			r := s.mintStateReq(q, true)
			r.target, r.pmOK, r.label = "/v1/mint/quote/bolt12/nosuchquote", false, "payment-method"
			s.do(r)
		} else {
			r := s.meltStateReq(&hMeltQ{}, true)
			r.target, r.pmOK, r.label = "/v1/melt/quote/onchain/nosuchquote", false, "payment-method"
			s.do(r)
		}
	case 4: // bodies encoding/json refuses
		rt := bodyRoutes[s.rng.Intn(len(bodyRoutes))]
		v := s.validFor(rt)
		if v == nil {
			return
		}
		k := s.rng.Intn(6)
		switch k {
		case 0:
			v.body, v.kind, v.label = nil, bcEmpty, "empty-body"
		case 1:
			v.body, v.kind, v.label = []byte(" \n\t "), bcEmpty, "whitespace-body"
		case 2:
			v.body, v.kind, v.label = []byte("hello"), bcSyntax, "not-json"
		case 3:
			v.body, v.kind, v.label = v.body[:1+s.rng.Intn(len(v.body)-1)], bcTrunc, "truncated"
		case 4:
			v.body, v.kind, v.label = []byte(`["a"]`), bcOk, "array-body"
		case 5:
			v.body, v.kind, v.label = bytes.Replace(v.body, []byte(":"), []byte(";"), 1), bcSyntax, "syntax"
		}
		s.do(*v)
	case 5: // Content-Type
		rt := bodyRoutes[s.rng.Intn(len(bodyRoutes))]
		v := s.validFor(rt)
		if v == nil {
			return
		}
		v.ctype = []string{"text/plain", "application/x-www-form-urlencoded", "application/json; charset=utf-8", "APPLICATION/JSON", ""}[s.rng.Intn(5)]
		v.label = "content-type"
		s.remember(s.do(*v))
	case 6: // GET with a body on the one body-decoding route that is registered for GET
		v := s.validFor(rtMintQuote)
		v.method, v.label = "GET", "get-with-body"
		if s.rng.Intn(2) == 0 {
			v.body, v.hasBody, v.kind = nil, false, bcEmpty
		}
		s.do(*v)
	case 7:
		s.do(reqSpec{method: "GET", route: rtWs, target: "/v1/ws", pmOK: true, kind: bcEmpty, label: "ws-no-upgrade"})
	case 8: // null and {}: every member takes its zero value
		rt := bodyRoutes[s.rng.Intn(len(bodyRoutes))]
		body := []string{"null", "{}", `{"zzz_extra":[1,{"a":null}]}`}[s.rng.Intn(3)]
		s.do(reqSpec{method: "POST", route: rt, target: routeTarget(rt, "bolt11"), pmOK: true, ctype: "application/json",
			body: []byte(body), hasBody: true, kind: bcOk, label: "zero-request"})
	}
}

// ---------------- stream c20-http ----------------

var c20Weights = map[string]int{
	"fund": 10, "swap": 12, "melt": 8, "poll": 8, "check": 6, "restore": 4, "keys": 6, "replay": 14, "split": 3,
	"route": 14, "fault": 6, "rotate": 1, "restart": 1, "semantic": 8, "bigbody": 1,
}

// one semantically invalid request of a random kind (the sweep does them all at one state)
func (s *HS) semantic() {
	i, ok := s.oneSpendable()
	if !ok {
		return
	}
	s.nontrivial = true
	outs := s.honestSwapOutputs([]inSpec{i})
	switch s.rng.Intn(8) {
	case 0:
		ul := s.usedOrLocked()
		if len(ul) > 0 {
			i = s.honest(ul[s.rng.Intn(len(ul))])
			outs = s.honestSwapOutputs([]inSpec{i})
		}
	case 1:
		i.cKind = 1 + s.rng.Intn(2)
	case 2:
		i.amount = []uint64{3, 5, 0, 1 << 60, 1<<63 + 1}[s.rng.Intn(5)]
	case 3:
		i.ks = -int64(1 + s.rng.Intn(6))
	case 4:
		outs = s.freshOutputs(cashu.AmountSplit(i.amount + 1))
	case 5:
		if len(outs) > 0 {
			outs[0].point = false
		}
	case 6:
		if len(outs) > 0 {
			outs[0].ks = []int64{-2, -4, -5}[s.rng.Intn(3)]
		}
	case 7:
		outs = nil // valid: the inputs are burnt
	}
	s.remember(s.do(s.swapReq([]inSpec{i}, outs)))
}

func c20Stream(sink *Sink, rng *rand.Rand, tier string, scratch string) {
	start := time.Now()
	target := 1500
	if tier == "thorough" {
		target = 15000
	} else if tier == "widen" {
		target = 6000
	}
	fees := []uint{0, 0, 100, 1000, 2500}
	total := 0
	for hi := 0; total < target; hi++ {
		cfg := cfgT{feePct: []uint64{0, 1, 1, 2, 5}[rng.Intn(5)], fee0: fees[rng.Intn(len(fees))]}
		if rng.Intn(100) < 30 {
			cfg.mpp = true
		}
		switch rng.Intn(5) {
		case 0:
			cfg.maxBalance = []uint64{100, 128, 1000}[rng.Intn(3)]
		case 1:
			cfg.maxMint = []uint64{21, 100}[rng.Intn(2)]
			cfg.maxMelt = []uint64{5, 20, 64}[rng.Intn(3)]
		}
		s := NewHS(sink, rng, scratch, cfg, 0, "C20", "c20-http")
		s.hFund(false, false)
		if hi%2 == 0 {
			s.hFund(true, true)
			s.causeSweep(fees)
		}
		ops := 25 + rng.Intn(30)
		for j := 0; j < ops; j++ {
			switch pickWeighted(rng, c20Weights) {
			case "fund":
				s.hFund(rng.Intn(2) == 0, rng.Intn(4) == 0)
			case "swap":
				s.hSwap()
			case "melt":
				s.hMelt(rng.Intn(3) != 0)
			case "poll":
				s.hPoll()
			case "check":
				s.hCheck()
			case "restore":
				s.hRestore()
			case "keys":
				s.hKeys()
			case "replay":
				s.replayProbe()
			case "split":
				s.splitProbe()
			case "route":
				s.routeProbe()
			case "fault":
				s.hFault()
			case "rotate":
				if len(s.tm.Order) < 3 {
					s.do(get(rtKeys, "/v1/keys"))
					s.Rotate(fees[rng.Intn(len(fees))])
					// in-process (no Start(), hence no cleanup ticker) the active-keyset entry of the cache outlives the rotation
					s.do(get(rtKeys, "/v1/keys"))
					s.nontrivial = true
				}
			case "bigbody":
				s.bigBody()
			case "restart":
				s.Restart(fees[rng.Intn(len(fees))], rng.Intn(3) == 0 && len(s.tm.Order) < 3)
				s.cached = nil
			case "semantic":
				s.semantic()
			}
		}
		total += s.nreq
		s.FinishHTTP(s.nontrivial)
	}
	sink.Close("random histories of mint-quote/mint/swap/melt-quote/melt/checkstate/restore/keys/keysets/info requests sent as hand-built JSON through the real HTTP handler; "+
		"one request per rejection cause of the error table at a state where it is the only fault; byte-identical replays and near-replays "+
		"(trailing space, other spelling, other method, other cached route, added query, URL/body split) of cached requests; routing, method, "+
		"Content-Type and body-decoding probes; injected storage and Lightning faults; non-trivial = at least one refused, replayed, probed or faulted request; "+
		"one case per history", false, start)
}

// ---------------- stream c06-http: mutation grammar ----------------

type jnode struct {
	parent *jv
	idx    int
	name   string // member name (or the name of the enclosing array member for elements)
	elem   bool
}

func collect(v *jv, name string, acc *[]jnode) {
	if v.k != 'a' && v.k != 'o' {
		return
	}
	for i, x := range v.a {
		n := name
		if v.k == 'o' {
			n = v.keys[i]
		}
		*acc = append(*acc, jnode{parent: v, idx: i, name: n, elem: v.k == 'a'})
		collect(x, n, acc)
	}
}

func dropAt(p *jv, i int) {
	p.a = append(p.a[:i:i], p.a[i+1:]...)
	if p.k == 'o' {
		p.keys = append(p.keys[:i:i], p.keys[i+1:]...)
	}
}

// mutate returns a structural mutation of the valid request sp (label, request)
func (s *HS) mutate(sp reqSpec) reqSpec {
	r := sp
	rng := s.rng
	if rng.Intn(100) < 28 {
		switch rng.Intn(12) {
		case 0:
			r.body, r.kind, r.label = nil, bcEmpty, "empty-body"
		case 1:
			r.body, r.kind, r.label = []byte("  \n"), bcEmpty, "whitespace-body"
		case 2:
			r.body, r.kind, r.label = []byte("hello"), bcSyntax, "not-json"
		case 3:
			r.body, r.kind, r.label = bytes.Replace(sp.body, []byte(":"), []byte(";"), 1), bcSyntax, "syntax-colon"
		case 4:
			r.body, r.kind, r.label = sp.body[:1+rng.Intn(len(sp.body)-1)], bcTrunc, "truncated"
		case 5:
			r.ctype, r.label = []string{"text/plain", "multipart/form-data"}[rng.Intn(2)], "wrong-content-type"
		case 6:
			r.body, r.label = []byte("null"), "null-body"
		case 7:
			r.body, r.label = []byte([]string{"[]", `"x"`, "7", "true"}[rng.Intn(4)]), "retype-body"
		case 8:
			r.body, r.semBody, r.label = append(append([]byte{}, sp.body...), []byte("}}garbage")...), sp.body, "trailing-garbage"
		case 9:
			t, _ := parseJSON(sp.body)
			t.set("zzz_extra", jA(jN(1), jO("a", jNull())))
			r.body, r.label = []byte(t.String()), "extra-member"
		case 10:
			r.body, r.kind, r.label = bytes.Replace(sp.body, []byte(`"`), []byte(`'`), 2), bcSyntax, "syntax-quote"
		case 11:
			r.body, r.label = []byte("{}"), "empty-object"
		}
		return r
	}
	t, _ := parseJSON(sp.body)
	var nodes []jnode
	collect(t, "", &nodes)
	if len(nodes) == 0 {
		r.body, r.label = []byte("{}"), "empty-object"
		return r
	}
	n := nodes[rng.Intn(len(nodes))]
	v := n.parent.a[n.idx]
	where := n.name
	if n.elem {
		where += "[]"
	}
	var muts []string
	muts = append(muts, "drop", "null")
	switch v.k {
	case 's':
		muts = append(muts, "retype-number", "retype-array", "retype-object", "garble-nonhex", "garble-oddhex", "garble-1MB", "garble-unicode", "garble-empty", "unknown-id")
	case '#':
		muts = append(muts, "retype-string", "retype-array", "garble-zero", "garble-notkey", "garble-2^63", "garble-2^64", "garble-negative", "garble-fraction")
	case 'a':
		muts = append(muts, "empty-list", "empty-list", "retype-object", "retype-string", "retype-number")
	case 'o':
		muts = append(muts, "retype-array", "retype-string", "empty-object")
	}
	m := muts[rng.Intn(len(muts))]
	set := func(x *jv) { n.parent.a[n.idx] = x }
	switch m {
	case "drop":
		dropAt(n.parent, n.idx)
	case "null":
		set(jNull())
	case "retype-number":
		set(jN(7))
	case "retype-string":
		if v.k == '#' {
			set(jS(v.s))
		} else {
			set(jS("x"))
		}
	case "retype-array":
		set(jA())
	case "retype-object":
		set(jO())
	case "garble-nonhex":
		set(jS("zz" + v.s))
	case "garble-oddhex":
		if len(v.s) > 1 {
			set(jS(v.s[:len(v.s)-1]))
		} else {
			set(jS("a"))
		}
	case "garble-1MB":
		set(jS(strings.Repeat("a", 1<<20)))
	case "garble-unicode":
		set(jS("ünïcödé ☃ \U0001F4A5 \"quoted\" \\ \u0000 \u0007"))
	case "garble-empty":
		set(jS(""))
	case "unknown-id":
		set(jS([]string{"00ffffffffffffff", "nosuchquote", "009a1f293253e41e"}[rng.Intn(3)]))
	case "garble-zero":
		set(jN(0))
	case "garble-notkey":
		set(jN([]uint64{3, 5, 7, 1000}[rng.Intn(4)]))
	case "garble-2^63":
		set(jN(1 << 63))
	case "garble-2^64":
		set(jNumText("18446744073709551616"))
	case "garble-negative":
		set(jNumText("-1"))
	case "garble-fraction":
		set(jNumText("1.5"))
	case "empty-list":
		set(jA())
	case "empty-object":
		set(jO())
	}
	r.body, r.label = []byte(t.String()), m+":"+where
	return r
}

func c06HTTPStream(sink *Sink, rng *rand.Rand, tier string, scratch string) {
	start := time.Now()
	target := 2500
	if tier == "thorough" {
		target = 25000
	} else if tier == "widen" {
		target = 10000
	}
	fees := []uint{0, 100, 1000}
	total := 0
	for total < target {
		cfg := cfgT{feePct: []uint64{0, 1, 2}[rng.Intn(3)], fee0: fees[rng.Intn(len(fees))], mpp: rng.Intn(3) == 0}
		s := NewHS(sink, rng, scratch, cfg, 1, "C06", "c06-http")
		s.hFund(false, false)
		rounds := 8 + rng.Intn(10)
		for j := 0; j < rounds; j++ {
			// the history keeps running between the mutated requests
			switch rng.Intn(6) {
			case 0:
				s.hSwap()
			case 1:
				s.hMelt(rng.Intn(2) == 0)
			case 2:
				s.hPoll()
			case 3:
				s.hFund(false, rng.Intn(4) == 0)
			}
			rt := bodyRoutes[rng.Intn(len(bodyRoutes))]
			valid := s.validFor(rt)
			if valid == nil {
				continue
			}
			mut := s.mutate(*valid)
			s.stats["mutation="+strings.SplitN(mut.label, ":", 2)[0]]++
			s.nontrivial = true
			ex := s.do(mut)
			if ex.status == 200 {
				s.stats["mutated-request-accepted"]++
				continue // the mutation left a valid request (an optional or unused member); it has been executed
			}
			ok := s.do(*valid)
			if ok.status != 200 {
				s.sink.Violate("corrected-request-failed:"+routeNames[rt]+":"+mut.label,
					fmt.Sprintf("after the mutated request was answered %d, the valid request was answered %d %.200s", ex.status, ok.status, string(ok.res.body)),
					LL(s.hitems).String(), map[string]any{"mutated_body": trunc(string(mut.body), 3000), "valid_body": trunc(string(valid.body), 3000)})
			}
		}
		total += s.nreq
		s.FinishHTTP(s.nontrivial)
	}
	sink.Close("at random points of running histories, for each of the seven operations a valid request at that state is mutated "+
		"(each list emptied; each member dropped / null / retyped / garbled: non-hex, odd-length hex, 1 MB, unicode, unknown id, amounts 0 / not a key / 2^63 / 2^64 / negative / fraction; "+
		"truncated, empty, non-JSON, wrong Content-Type bodies) and sent as raw JSON through the real handler, then the valid request is sent; "+
		"observed: status class and the full state snapshot; non-trivial = a mutated request was sent; one case per history", false, start)
}

func init() {
	register("c20-http", "C20", c20Stream)
	register("c06-http", "C06", c06HTTPStream)
}
