package main

import (
	"crypto/rand"
	"crypto/sha256"
	"encoding/hex"
	"time"

	"github.com/btcsuite/btcd/chaincfg"
	"github.com/decred/dcrd/dcrec/secp256k1/v4"
	"github.com/decred/dcrd/dcrec/secp256k1/v4/ecdsa"
	"github.com/lightningnetwork/lnd/lnwire"
	"github.com/lightningnetwork/lnd/zpay32"
)

// createFakeInvoiceMsat is lightning.CreateFakeInvoice with millisatoshi precision.
func createFakeInvoiceMsat(msat uint64) (string, string, string, error) {
	var random [32]byte
	if _, err := rand.Read(random[:]); err != nil {
		return "", "", "", err
	}
	preimage := hex.EncodeToString(random[:])
	paymentHash := sha256.Sum256(random[:])
	hash := hex.EncodeToString(paymentHash[:])
	invoice, err := zpay32.NewInvoice(&chaincfg.SigNetParams, paymentHash, time.Now(),
		zpay32.Amount(lnwire.MilliSatoshi(msat)), zpay32.Description("verif"))
	if err != nil {
		return "", "", "", err
	}
	invoiceStr, err := invoice.Encode(zpay32.MessageSigner{
		SignCompact: func(msg []byte) ([]byte, error) {
			key, err := secp256k1.GeneratePrivateKey()
			if err != nil {
				return []byte{}, err
			}
			return ecdsa.SignCompact(key, msg, true), nil
		},
	})
	return invoiceStr, preimage, hash, err
}

// forgedInvoiceMsat builds a validly encoded invoice of msat millisatoshi that carries the payment hash of somebody else's
// invoice (anybody who has seen an invoice can do this: the hash is public and decodepay does not check the signer).
func forgedInvoiceMsat(hashHex string, msat uint64) (string, error) {
	hb, err := hex.DecodeString(hashHex)
	if err != nil || len(hb) != 32 {
		return "", err
	}
	var paymentHash [32]byte
	copy(paymentHash[:], hb)
	invoice, err := zpay32.NewInvoice(&chaincfg.SigNetParams, paymentHash, time.Now(),
		zpay32.Amount(lnwire.MilliSatoshi(msat)), zpay32.Description("verif-forged"))
	if err != nil {
		return "", err
	}
	return invoice.Encode(zpay32.MessageSigner{
		SignCompact: func(msg []byte) ([]byte, error) {
			key, err := secp256k1.GeneratePrivateKey()
			if err != nil {
				return []byte{}, err
			}
			return ecdsa.SignCompact(key, msg, true), nil
		},
	})
}
