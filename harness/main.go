// Command harness drives the real gonuts packages (built from /repo with -tags verif)
// on generated abstract cases and writes, per case, the abstract case and the projected
// observables of the implementation as s-expressions of integers, plus a report with
// monitor verdicts, input distribution and samples.
package main

import (
	"encoding/json"
	"flag"
	"fmt"
	"math/rand"
	"os"
	"path/filepath"
	"sort"
	"time"
)

type Violation struct {
	Signature string `json:"signature"` // stable identity of the failing shape (matched against known_findings.json)
	Detail    string `json:"detail"`
	Case      string `json:"case"` // abstract case (s-expression) or concrete input
	Replay    any    `json:"replay,omitempty"`
}

type Report struct {
	Property   string            `json:"property"`
	Stream     string            `json:"stream"`
	Tier       string            `json:"tier"`
	Seed       int64             `json:"seed"`
	Cases      int               `json:"cases"`
	Nontrivial int               `json:"distinct_nontrivial"`
	Rule       string            `json:"rule"`
	Exhaustive bool              `json:"exhaustive"`
	Stats      map[string]int    `json:"stats"`
	Samples    []string          `json:"samples"`
	Violations []Violation       `json:"violations"`
	Notes      []string          `json:"notes,omitempty"`
	WallS      float64           `json:"wall_s"`
}

// Sink collects cases, implementation observations and monitor verdicts.
type Sink struct {
	dir      string
	cases    *os.File
	obs      *os.File
	rep      Report
	distinct map[string]bool
	perSig   map[string]int
	maxSamples int
}

func NewSink(dir, prop, stream, tier string, seed int64) *Sink {
	must(os.MkdirAll(dir, 0o755))
	c, err := os.Create(filepath.Join(dir, "cases.sexp"))
	must(err)
	o, err := os.Create(filepath.Join(dir, "impl.obs"))
	must(err)
	return &Sink{dir: dir, cases: c, obs: o, distinct: map[string]bool{},
		rep: Report{Property: prop, Stream: stream, Tier: tier, Seed: seed, Stats: map[string]int{}}, maxSamples: 6}
}

// Add records one case with the implementation's projected observation.
// nontrivial: whether the case counts as non-trivial under the stream's rule.
func (s *Sink) Add(c S, obs S, nontrivial bool) {
	cs := c.String()
	fmt.Fprintln(s.cases, cs)
	fmt.Fprintln(s.obs, obs.String())
	s.rep.Cases++
	if nontrivial && !s.distinct[cs] {
		s.distinct[cs] = true
	}
	if len(s.rep.Samples) < s.maxSamples && (nontrivial || s.rep.Cases%97 == 1) {
		s.rep.Samples = append(s.rep.Samples, cs+" => "+obs.String())
	}
}

func (s *Sink) Stat(key string) { s.rep.Stats[key]++ }
func (s *Sink) StatN(key string, n int) { s.rep.Stats[key] += n }
func (s *Sink) Note(n string)   { s.rep.Notes = append(s.rep.Notes, n) }

func (s *Sink) Violate(sig, detail string, c string, replay any) {
	// at most two examples per signature, so that one frequent signature cannot hide the others
	if s.perSig == nil {
		s.perSig = map[string]int{}
	}
	s.perSig[sig]++
	if s.perSig[sig] <= 2 && len(s.rep.Violations) < 400 {
		s.rep.Violations = append(s.rep.Violations, Violation{Signature: sig, Detail: detail, Case: c, Replay: replay})
	}
}

func (s *Sink) Close(rule string, exhaustive bool, start time.Time) {
	s.cases.Close()
	s.obs.Close()
	s.rep.Rule = rule
	s.rep.Exhaustive = exhaustive
	s.rep.Nontrivial = len(s.distinct)
	s.rep.WallS = time.Since(start).Seconds()
	if s.rep.Violations == nil {
		s.rep.Violations = []Violation{}
	}
	b, err := json.MarshalIndent(s.rep, "", " ")
	must(err)
	must(os.WriteFile(filepath.Join(s.dir, "report.json"), b, 0o644))
}

func must(err error) {
	if err != nil {
		panic(err)
	}
}

type streamFn func(sink *Sink, rng *rand.Rand, tier string, scratch string)

var streams = map[string]struct {
	prop string
	fn   streamFn
}{}

func register(name, prop string, fn streamFn) {
	streams[name] = struct {
		prop string
		fn   streamFn
	}{prop, fn}
}

func main() {
	stream := flag.String("stream", "", "stream to run (see -list)")
	tier := flag.String("tier", "quick", "quick|thorough")
	seed := flag.Int64("seed", 1, "PRNG seed")
	out := flag.String("out", "", "output directory")
	scratch := flag.String("scratch", "", "scratch directory (tmpfs)")
	list := flag.Bool("list", false, "list streams")
	flag.Parse()
	if *list {
		names := []string{}
		for n := range streams {
			names = append(names, n)
		}
		sort.Strings(names)
		for _, n := range names {
			fmt.Println(n, streams[n].prop)
		}
		return
	}
	st, ok := streams[*stream]
	if !ok {
		fmt.Fprintln(os.Stderr, "unknown stream", *stream)
		os.Exit(2)
	}
	if *out == "" || *scratch == "" {
		fmt.Fprintln(os.Stderr, "-out and -scratch are required")
		os.Exit(2)
	}
	must(os.MkdirAll(*scratch, 0o755))
	sink := NewSink(*out, st.prop, *stream, *tier, *seed)
	rng := rand.New(rand.NewSource(*seed))
	st.fn(sink, rng, *tier, *scratch)
}
