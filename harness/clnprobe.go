package main

// CLN adapter probe (C02): mint/lightning/cln.go is outside the model (the mint model talks to an abstract lightning.Client).
// What the mint relies on is checked here against an httptest stand-in for clnrest that records what it is asked:
// the invoice it asks the node for is for exactly the quoted amount, and the fee limit and partial amount it hands to `pay`
// are exactly the ones the mint computed - or the adapter returns an error. (A search for failing inputs, not a proof.)

import (
	"context"
	"encoding/json"
	"fmt"
	"io"
	"math/big"
	"net/http"
	"net/http/httptest"

	"github.com/elnosh/gonuts/mint/lightning"
)

func clnProbe(sink *Sink) {
	var last map[string]json.RawMessage
	var lastPath string
	srv := httptest.NewServer(http.HandlerFunc(func(w http.ResponseWriter, r *http.Request) {
		b, _ := io.ReadAll(r.Body)
		last = map[string]json.RawMessage{}
		_ = json.Unmarshal(b, &last)
		lastPath = r.URL.Path
		w.Header().Set("Content-Type", "application/json")
		switch r.URL.Path {
		case "/v1/invoice":
			fmt.Fprint(w, `{"bolt11":"lnbc1probe","payment_hash":"00"}`)
		case "/v1/pay":
			fmt.Fprint(w, `{"payment_preimage":"00","status":"complete"}`)
		default:
			fmt.Fprint(w, `{}`)
		}
	}))
	defer srv.Close()
	cln, err := lightning.SetupCLNClient(lightning.CLNConfig{RestURL: srv.URL, Rune: "probe"})
	if err != nil {
		sink.Note("cln probe: " + err.Error())
		return
	}
	num := func(key string) *big.Int {
		raw, ok := last[key]
		if !ok {
			return nil
		}
		v, ok := new(big.Int).SetString(string(raw), 10)
		if !ok {
			// encoding/json may print large numbers in exponent form: parse as a float-free decimal if possible
			var f json.Number
			if json.Unmarshal(raw, &f) == nil {
				if v2, ok2 := new(big.Int).SetString(f.String(), 10); ok2 {
					return v2
				}
			}
			return nil
		}
		return v
	}
	thousand := big.NewInt(1000)
	amounts := []uint64{1, 21, 999, 1 << 32, 18446744073709551, 18446744073709552, 1<<61 + 1, 1 << 63, ^uint64(0)}
	for _, a := range amounts {
		last, lastPath = nil, ""
		inv, err := cln.CreateInvoice(a)
		sink.Stat("cln-probe:create-invoice")
		if err != nil {
			continue // refusing is fine
		}
		want := new(big.Int).Mul(new(big.Int).SetUint64(a), thousand)
		got := num("amount_msat")
		if lastPath != "/v1/invoice" || got == nil || got.Cmp(want) != 0 || inv.Amount != a {
			sink.Violate("cln-invoice-amount-wrong", fmt.Sprintf("CreateInvoice(%d sat) asked the node for an invoice of %v msat (want %v) and reported success", a, got, want), fmt.Sprintf("CLNClient.CreateInvoice(%d)", a), nil)
		}
	}
	for _, f := range amounts {
		last, lastPath = nil, ""
		_, err := cln.SendPayment(context.Background(), "lnbc1probe", f)
		sink.Stat("cln-probe:send-payment")
		if err != nil {
			continue
		}
		want := new(big.Int).Mul(new(big.Int).SetUint64(f), thousand)
		got := num("maxfee")
		// a smaller limit than asked for is safe (the payment may fail), a larger one is not
		if got == nil || got.Cmp(want) > 0 {
			sink.Violate("cln-fee-limit-above-reserve", fmt.Sprintf("SendPayment with fee limit %d sat handed maxfee %v msat to the node", f, got), fmt.Sprintf("CLNClient.SendPayment(maxFee=%d)", f), nil)
		}
		last, lastPath = nil, ""
		_, err = cln.PayPartialAmount(context.Background(), "lnbc1probe", f, f)
		if err != nil {
			continue
		}
		gotP, gotF := num("partial_msat"), num("maxfee")
		if gotP == nil || gotP.Cmp(new(big.Int).SetUint64(f)) != 0 || gotF == nil || gotF.Cmp(want) > 0 {
			sink.Violate("cln-partial-payment-wrong", fmt.Sprintf("PayPartialAmount(%d msat, fee limit %d sat) handed partial_msat %v, maxfee %v to the node", f, f, gotP, gotF), fmt.Sprintf("CLNClient.PayPartialAmount(%d, %d)", f, f), nil)
		}
	}
}
