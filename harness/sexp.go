package main

import (
	"strconv"
	"strings"
)

// S is an s-expression of integers: either an atom or a list.
type S struct {
	atom   bool
	z      string
	items  []S
}

func A(v int64) S         { return S{atom: true, z: strconv.FormatInt(v, 10)} }
func AU(v uint64) S       { return S{atom: true, z: strconv.FormatUint(v, 10)} }
func AS(dec string) S     { return S{atom: true, z: dec} }
func AB(b bool) S         { if b { return A(1) }; return A(0) }
func L(items ...S) S      { return S{items: items} }
func LL(items []S) S      { return S{items: items} }

func (s S) write(b *strings.Builder) {
	if s.atom {
		b.WriteString(s.z)
		return
	}
	b.WriteByte('(')
	for i, it := range s.items {
		if i > 0 {
			b.WriteByte(' ')
		}
		it.write(b)
	}
	b.WriteByte(')')
}

func (s S) String() string {
	var b strings.Builder
	s.write(&b)
	return b.String()
}

func bytesS(bs []byte) S {
	items := make([]S, len(bs))
	for i, c := range bs {
		items[i] = A(int64(c))
	}
	return LL(items)
}
