package main

// c01-large: requests with several hundred inputs (C01).  Whatever batching a storage layer applies to its look-ups, a consumed
// or locked secret is refused at every position of a long input list.

import (
	"math/rand"
	"time"
)

func streamLarge(sink *Sink, rng *rand.Rand, tier string, scratch string) {
	start := time.Now()
	n := 620
	if tier == "thorough" {
		n = 1300
	}
	for variant := 0; variant < 4; variant++ {
		cfg := cfgT{feePct: 0}
		h := NewHist(sink, rng, scratch, cfg, 1, "C01")
		q := h.OpMintQuote(mode{}, uint64(n), false, false, true)
		if q == nil {
			h.Finish(false)
			continue
		}
		h.EnvSettle(q)
		amounts := make([]uint64, n)
		for i := range amounts {
			amounts[i] = 1
		}
		h.OpMint(mode{}, q, h.freshOutputs(amounts), 0, false)
		sp := h.spendable()
		if len(sp) < n {
			h.Finish(false)
			continue
		}
		pos := []int{n - 1, n - 1, n / 2, n - 1}[variant]
		victim := sp[pos]
		v := h.honest(victim)
		switch variant {
		case 0, 2: // consumed by an earlier swap
			h.OpSwap(mode{}, []inSpec{v}, h.honestSwapOutputs([]inSpec{v}))
		case 1, 3: // locked by a melt whose payment is in flight
			if mq := h.OpMeltQuote(mode{}, 1000, nil, 0, true, true, nil); mq != nil {
				h.ScriptPay(mq, 2, 0)
				h.OpMelt(mode{}, mq, []inSpec{v}, false)
			}
		}
		var ins []inSpec
		for i, s := range sp {
			if i == pos {
				ins = append(ins, v)
			} else if len(ins) < n-10 || i > pos {
				ins = append(ins, h.honest(s))
			}
		}
		h.nontrivial = true
		if variant == 3 {
			// a melt whose last inputs are already locked elsewhere
			if mq := h.OpMeltQuote(mode{}, 500000, nil, 0, true, true, nil); mq != nil {
				h.OpMelt(mode{}, mq, ins, false)
			}
		} else {
			h.OpSwap(mode{}, ins, h.honestSwapOutputs(ins))
		}
		// and the untouched ones are still good
		var rest []inSpec
		for _, s := range h.spendable() {
			if len(rest) < 5 {
				rest = append(rest, h.honest(s))
			}
		}
		h.OpSwap(mode{}, rest, h.honestSwapOutputs(rest))
		sink.Stat("large-request-inputs")
		h.Finish(true)
	}
	sink.Close("swap and melt requests with more than 600 one-sat inputs (1300 in the thorough tier) in which one input was consumed by an earlier swap or is locked by a melt in flight, placed last or in the middle; non-trivial = every case", false, start)
}

func init() {
	register("c01-large", "C01", streamLarge)
}
